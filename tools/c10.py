"""C10 — a storage error surfaces as an error and is recoverable by reopening."""
from crash import *
from crash import _run_one


def run_prefix(pair, ops, upto):
    """fresh disk, run ops[0:upto] on both sides; returns spec"""
    p = pair
    p.reset(); p.raw("disk D")
    p.do("new W D writer")
    spec = ListSpec()
    runner = HistoryRunner(p, probe="none")
    for k, op in enumerate(ops[:upto]):
        _run_one(runner, p, k, op, spec)
    return spec


def fault_history(pair, ops, res):
    found = []
    p = pair
    # dry run to learn the number of storage operations of every step (and of creation)
    p.reset(); p.raw("disk D")
    c0 = int(p.impl.cmd("opcount D").split(" ")[1])
    p.do("new W D writer")
    counts = [(c0, int(p.impl.cmd("opcount D").split(" ")[1]))]
    spec = ListSpec()
    runner = HistoryRunner(p, probe="none")
    try:
        for k, op in enumerate(ops):
            a = int(p.impl.cmd("opcount D").split(" ")[1])
            _run_one(runner, p, k, op, spec)
            counts.append((a, int(p.impl.cmd("opcount D").split(" ")[1])))
    except Violation as v:
        return [dict(key=v.key, what=v.what, replay=dict(history=[op_json(o) for o in ops]))]
    for step in range(-1, len(ops)):
        lo, hi = counts[step + 1]
        for kf in range(lo, hi):
            res.count("faults-injected")
            try:
                spec_before = run_prefix(pair, ops, max(step, 0)) if step >= 0 else None
                if step == -1:
                    p.reset(); p.raw("disk D")
                base = int(p.impl.cmd("opcount D").split(" ")[1]) if step >= 0 else 0
                # the ordinal is absolute; the prefix issues the same number of operations as the dry run
                p.impl.cmd("fail D %d" % kf)
                op = ops[step] if step >= 0 else ("new",)
                kind = op[0]
                if kind == "new":
                    ia = p.impl.cmd("new W D writer")
                elif kind == "append":
                    ia = p.impl.cmd("append W " + " ".join(hexb(b) for b in op[1]))
                elif kind == "clear":
                    if op[1] >= spec_before.length:
                        p.impl.cmd("fail D off"); continue
                    ia = p.impl.cmd("clear W %d %d" % (op[1], op[2]))
                elif kind == "reopen":
                    p.impl.cmd("drop W")
                    ia = p.impl.cmd("open W D")
                elif kind == "readonly":
                    ia = p.impl.cmd("readonly W")
                elif kind == "get":
                    ia = p.impl.cmd("get W %d" % op[1])
                else:
                    p.impl.cmd("fail D off"); continue
                p.impl.cmd("fail D off")
                lab = "history %s, I/O error at storage operation %d (step %d %s)" % ([op_text(o) for o in ops], kf, step, op_text(op))
                if klass(ia) == "crash":
                    found.append(dict(key="fault:crash", what="%s -> %s" % (lab, ia[:120]), replay=dict(history=[op_json(o) for o in ops], fail_at=kf, step=step)))
                    continue
                if not ia.startswith("err"):
                    found.append(dict(key="fault:success", what="%s: the call answered %s although a storage operation failed" % (lab, ia[:80]),
                                      replay=dict(history=[op_json(o) for o in ops], fail_at=kf, step=step)))
                    continue
                res.count("fault-answer:" + ia)
                # drop the instance and reopen the same storage: before-or-after, everything earlier intact
                p.impl.cmd("drop W")
                n, _ = parse_journal(p.impl.cmd("journal D 0"))
                # the model ran no faulted call: give it the same disk by replaying the implementation's journal prefix
                after = None
                if step >= 0:
                    after = spec_before.copy()
                    r2 = HistoryRunner(p, probe="none")
                    if kind == "append" and after.writeable:
                        after.blocks.extend(op[1])
                    elif kind == "clear":
                        for i in range(op[1], min(op[2], after.length)):
                            after.cleared.add(i)
                    elif kind == "readonly":
                        after.writeable = False
                else:
                    after = ListSpec()
                # model side: run the un-faulted call so that its journal contains the operations, then both fork at n
                if kind == "new":
                    p.model.cmd("new W D writer")
                elif kind == "append":
                    p.model.cmd("append W F=1 " + " ".join(hexb(b) for b in op[1]))
                elif kind == "clear":
                    p.model.cmd("clear W F=1 %d %d" % (op[1], op[2]))
                elif kind == "reopen":
                    p.model.cmd("drop W"); p.model.cmd("open W D")
                elif kind == "readonly":
                    p.model.cmd("readonly W")
                w = check_recovery(p, "fork X D %d" % n, spec_before, after, lab)
                res.count("fault-recovered:" + str(w))
            except Violation as v:
                found.append(dict(key=v.key, what=v.what, replay=dict(history=[op_json(o) for o in ops], fail_at=kf, step=step)))
            if len(found) >= 3:
                return found
    return found


def main(tier, seed):
    res = Result("C10", tier, seed)
    res.gate = coq_gate("C10.v", clean=(tier == "thorough"))
    build_harness(); build_model()
    r = random.Random(seed)
    pair = Pair(compare_journal=False)
    try:
        hs = [[("append", [b"a"]), ("append", [b"b", b"c"]), ("clear", 0, 1), ("reopen",), ("append", [b"d"]), ("get", 1)],
              [("append", [b"a"]), ("append", [b"b"]), ("readonly",), ("reopen",)]]
        for _ in range(6 if tier == "quick" else 150):
            hs.append(random_history(r, r.choice([3, 5, 7]), reopen_p=0.2, clear_p=0.2))
        for h in hs:
            vs = fault_history(pair, h, res)
            res.add_case(tuple(op_text(o) for o in h), True, sample=[op_text(o) for o in h][:8] if res.evaluations % 3 == 0 else None)
            res.violations.extend(vs)
            pair.disagreements = [d for d in pair.disagreements if d.get("level") != "journal"]
            res.disagreements.extend(pair.disagreements[:2]); pair.disagreements = []
            if len(res.violations) >= 4:
                break
        res.extra["commands_compared"] = pair.ncmp
    finally:
        pair.close()
    return res.finish(
        "theorems of coq/props/C10.v (a failed storage operation leaves the disk at a journal prefix, hence C02 applies); on the "
        "implementation one I/O error is injected at every storage operation (reads, length queries, writes, deletes, truncates, "
        "during open too) of every history: the call must answer an error, and reopening must show the before-or-after state",
        "corpus + seeded random histories; every storage-operation index of every step is a fault point")


if __name__ == "__main__":
    sys.exit(main(sys.argv[1], seed_from_env()))

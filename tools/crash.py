import random
"""crash — enumeration of crash / torn-write points of a history and the before-or-after oracle."""
from hist import *


def observe(pair, core, spec_candidates, maxlen):
    """reads the recovered core through the API on both sides; returns the implementation's
    observation tuple"""
    ia, _ = pair.do("info %s" % core)
    obs = [ia]
    for i in range(maxlen + 2):
        a, _ = pair.do("has %s %d" % (core, i))
        obs.append(a)
        b, _ = pair.do("get %s %d" % (core, i))
        obs.append(b)
    return obs


def expected_obs(spec, maxlen):
    obs = [spec.exp_info()]
    for i in range(maxlen + 2):
        obs.append(spec.exp_has(i))
        obs.append(spec.exp_get(i))
    return obs


def check_recovery(pair, disk_cmd, before, after, label, continuation=True):
    """disk_cmd creates disk X on both sides. before/after are ListSpec or None (None = storage
    without a core: open must report EmptyStorage). Raises Violation."""
    pair.raw(disk_cmd)
    pair.core_disk["X"] = "X"
    pair.jpos["X"] = 10 ** 9   # journal of the forked disk is not compared from the start
    ji = pair.impl.cmd("journal X 0"); n, _ = parse_journal(ji)
    pair.jpos["X"] = n
    ia, ma = pair.do("open X X")
    cands = [s for s in (before, after)]
    if klass(ia) == "crash":
        raise Violation("recover:crash", "%s: reopen -> %s" % (label, ia[:160]), label)
    if ia.startswith("err"):
        if ia == "err EmptyStorage" and any(c is None for c in cands):
            return "empty"
        raise Violation("recover:open-failed", "%s: reopen failed with %s" % (label, ia), label)
    real = [c for c in cands if c is not None]
    maxlen = max(c.length for c in real) if real else 0
    obs = observe(pair, "X", real, maxlen)
    which = None
    for name, c in (("before", before), ("after", after)):
        if c is not None and obs == expected_obs(c, maxlen):
            which = (name, c)
            break
    if which is None:
        exp = " | ".join(expected_obs(c, maxlen)[0] for c in real)
        raise Violation("recover:neither", "%s: recovered state is neither before nor after the call: info=%s, "
                        "expected one of [%s]; gets=%s" % (label, obs[0], exp, obs[2::2][:8]), label)
    if continuation and which[1].writeable:
        spec = which[1].copy()
        spec.blocks.append(b"zz")
        ia, _ = pair.do("append X 7a7a")
        if ia != "ok %d %d" % (spec.length, spec.byte_length):
            raise Violation("recover:continue", "%s: append after recovery answered %s" % (label, ia[:120]), label)
        pair.raw("drop X")
        ia, _ = pair.do("open X X")
        if ia != "ok":
            raise Violation("recover:continue", "%s: second reopen after recovery answered %s" % (label, ia[:120]), label)
        obs2 = observe(pair, "X", [spec], spec.length)
        if obs2 != expected_obs(spec, spec.length):
            raise Violation("recover:continue", "%s: after recovery+append+reopen info=%s expected %s gets=%s" %
                            (label, obs2[0], spec.exp_info(), obs2[2::2][:8]), label)
    elif continuation and which[1].length > 0:
        # read-only core: clear is still allowed and forces a flush sooner or later
        spec = which[1].copy()
        L = spec.length
        for rnd_ in range(2):
            spec.cleared.add(L - 1)
            ia, _ = pair.do("clear X %d %d" % (L - 1, L))
            if ia != "ok":
                raise Violation("recover:continue", "%s: clear after recovery answered %s" % (label, ia[:120]), label)
        pair.raw("drop X")
        ia, _ = pair.do("open X X")
        if ia != "ok":
            raise Violation("recover:continue", "%s: second reopen after recovery answered %s" % (label, ia[:120]), label)
        obs2 = observe(pair, "X", [spec], spec.length)
        if obs2 != expected_obs(spec, spec.length):
            raise Violation("recover:continue", "%s: after recovery+clear+reopen info=%s expected %s gets=%s" %
                            (label, obs2[0], spec.exp_info(), obs2[2::2][:8]), label)
    pair.raw("drop X")
    return which[0]


def group_subsets(ops, lo, hi):
    """inside [lo,hi): find maximal runs of tree/bitfield writes; yield skip lists for singletons and
    co-singletons of each run (prefixes are covered by the plain cuts)"""
    i = lo
    while i < hi:
        if ops[i].startswith("w:t:") or ops[i].startswith("w:b:"):
            j = i
            while j < hi and (ops[j].startswith("w:t:") or ops[j].startswith("w:b:")):
                j += 1
            if j - i >= 2:
                for k in range(i, j):
                    yield j, [k]                                   # everything but k
                    yield j, [x for x in range(i, j) if x != k]    # only k
            i = j
        else:
            i += 1


def enumerate_crashes(pair, ops, res, torn=False, rnd=None, max_subsets=12, only_kinds=None):
    """runs the history; after each mutating step enumerates every crash point of its journal.
    Returns list of violations (dicts)."""
    found = []
    steps = []   # (k, op, j_before, j_after, spec_before, spec_after)
    state = dict(prev=None, jprev=0)

    p = pair
    runner = HistoryRunner(p, probe="none")

    def on_step(k, op, spec):
        ji = p.impl.cmd("journal D 0")
        n, _ = parse_journal(ji)
        steps.append((k, op, state["jprev"], n, state["prev"], spec.copy()))
        state["prev"] = spec.copy(); state["jprev"] = n
    runner.on_step = on_step
    # creation step
    try:
        p.reset()
        p.raw("disk D")
        ia, _ = p.do("new W D writer")
        if ia != "ok":
            raise Violation("new:create", "creation answered " + ia[:100], -1)
        n, _ = parse_journal(p.impl.cmd("journal D 0"))
        spec = ListSpec()
        steps.append((-1, ("new",), 0, n, None, spec.copy()))
        state["prev"] = spec.copy(); state["jprev"] = n
        # run the rest without resetting: reuse runner internals
        runner_ops = ops
        spec_run = spec
        for k, op in enumerate(runner_ops):
            _run_one(runner, p, k, op, spec_run)
            on_step(k, op, spec_run)
    except Violation as v:
        found.append(dict(key=v.key, what=v.what, replay=dict(history=[op_json(o) for o in ops], failing_step=v.at)))
        return found
    _, allops = parse_journal(p.impl.cmd("journal D 0"))
    for (k, op, lo, hi, before, after) in steps:
        if hi == lo:
            continue
        if only_kinds and op[0] not in only_kinds:
            continue
        cuts = []
        cs = list(range(lo, hi + 1))
        if len(cs) > 60:
            # a very long journal (a batch of hundreds of blocks: one write per tree node): the cuts around the protocol steps (data,
            # entry, first pages / nodes; last nodes, header slot, truncate) and a sample of the ones in between
            cs = sorted(set(cs[:8] + cs[-8:] + [(rnd or random).choice(cs) for _ in range(14)]))
            res.count("sampled-long-journals")
        for c in cs:
            cuts.append(("fork X D %d" % c, "cut=%d" % c, c))
        nsub = 0
        for upto, skip in group_subsets(allops, lo, hi):
            if nsub >= max_subsets:
                break
            nsub += 1
            cuts.append(("fork X D %d skip=%s" % (upto, ",".join(map(str, skip))), "upto=%d skip=%s" % (upto, skip), None))
        if torn:
            tcs = list(range(lo, hi))
            if len(tcs) > 60:
                tcs = sorted(set(tcs[:6] + tcs[-6:] + [(rnd or random).choice(tcs) for _ in range(8)]))
            for c in tcs:
                o = allops[c]
                if not o.startswith("w:"):
                    continue
                L = len(o.split(":")[3]) // 2 if o.split(":")[3] != "_" else 0
                if L <= 1:
                    continue
                if L <= 64:
                    ts = list(range(1, L))
                else:
                    ts = sorted(set([1, 3, 4, 5, 7, 8, 9, 12, L - 1, L - 2, L - 8] +
                                    [x for x in (512, 1024, 4095) if x < L] +
                                    [rnd.randrange(1, L) for _ in range(6)]))
                for t in ts:
                    cuts.append(("fork X D %d torn=%d" % (c, t), "cut=%d torn=%d/%d op=%s" % (c, t, L, o[:12]), None))
        for cmd, label, c in cuts:
            res.count("recoveries")
            res.count("crash-in:" + op[0])
            lab = "step %d %s %s" % (k, op_text(op), label)
            try:
                b, a = before, after
                if c == lo:
                    a = before      # nothing of this call reached the disk
                if c == hi:
                    b = after       # a completed call stays applied
                w = check_recovery(p, cmd, b, a, lab)
                res.count("recovered:" + str(w))
            except Violation as v:
                found.append(dict(key=v.key + "@" + op[0], what=v.what,
                                  replay=dict(history=[op_json(o) for o in ops], crash=cmd, step=k)))
                if len(found) >= 3:
                    return found
    return found


def _run_one(runner, p, k, op, spec):
    kind = op[0]
    if kind == "append":
        if spec.writeable:
            spec.blocks.extend(op[1]); exp = "ok %d %d" % (spec.length, spec.byte_length)
        else:
            exp = "err NotWritable"
        ia, _ = p.do("append W " + " ".join(hexb(b) for b in op[1]))
        runner.expect(k, op, ia, exp, "result")
    elif kind == "clear":
        if op[1] >= spec.length:
            return          # outside the property's quantifier (start < length)
        for i in range(op[1], min(op[2], spec.length)):
            spec.cleared.add(i)
        ia, _ = p.do("clear W %d %d" % (op[1], op[2]))
        runner.expect(k, op, ia, "ok", "result")
    elif kind == "reopen":
        p.raw("drop W")
        ia, _ = p.do("open W D")
        runner.expect(k, op, ia, "ok", "result")
    elif kind == "readonly":
        exp = "ok 1" if spec.writeable else "ok 0"
        spec.writeable = False
        ia, _ = p.do("readonly W")
        runner.expect(k, op, ia, exp, "result")
    elif kind == "get":
        ia, _ = p.do("get W %d" % op[1])
        runner.expect(k, op, ia, spec.exp_get(op[1]), "result")
    elif kind in ("has", "info"):
        pass
    else:
        raise ValueError(op)

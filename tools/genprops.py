#!/usr/bin/env python3
"""genprops.py OUT.v HEADER_COMMENT_FILE IMPORTS name=lemma ... — writes a props file whose statements are the exact
types Coq prints for the given lemmas (so that the pinned text is what the kernel checked)."""
import subprocess, sys, re, os
out, header_file, imports = sys.argv[1], sys.argv[2], sys.argv[3]
pairs = [a.split("=") for a in sys.argv[4:]]
q = "%s\nSet Printing Width 110.\n" % imports + "".join("Check %s.\n" % l for _, l in pairs)
open("/tmp/genprops_q.v", "w").write(q)
r = subprocess.run("cd /verif/coq && coqc -Q . HC /tmp/genprops_q.v", shell=True, capture_output=True, text=True)
assert r.returncode == 0, r.stdout + r.stderr
blocks = re.split(r"\n(?=\S)", r.stdout.strip())
types = {}
for b in blocks:
    m = re.match(r"(\S+)\n\s+: (.*)", b, re.S)
    if m:
        types[m.group(1)] = m.group(2)
body = open(header_file).read().rstrip() + "\n" + imports + "\n\n"
for name, lemma in pairs:
    t = types[lemma]
    body += "Theorem %s :\n  %s.\nProof. exact %s. Qed.\n\n" % (name, t.replace("\n", "\n  "), lemma)
body += "".join("Print Assumptions %s.\n" % n for n, _ in pairs)
open(out, "w").write(body)
print("wrote", out, len(pairs), "theorems")

"""srcfns — source-derived EXPRESSIONS of /repo/src: a small recursive-descent parser for the pure integer / boolean
expression subset of Rust, and extractors that locate — by function name and syntactic role — the expressions the model mirrors by
hand: the leader word and its 30-bit guard (build_len_and_info_header), its decomposition and the no-frame / minimum-length
conditions and checksum zone (validate_leader), the header-slot functions (get_current_header_bit,
get_next_header_oplog_slot_and_bit_value) of src/oplog/mod.rs; the two conditions of update_contiguous_length and the decision and
counter updates of should_flush_bitfield_and_tree_and_oplog of src/core.rs.

Written to coq/SrcFns.v as `option rexpr` values over the AST of coq/FnDesc.v (None = function / statement no longer found in the
recognisable form, or an expression outside the subset, or one that mentions a variable the extractor does not know: no alarm);
coq/FnTie.v proves that the model's functions ARE these expressions (a recognisable but different expression breaks the proof).

Conventions of the translation (the trusted part):
  * integer literals dec/hex/octal/binary with `_` and type suffixes; `true`/`false` are 1/0; `as T`, `T::try_from(e)`, `T::from(e)`,
    `.try_into()`, `.into()`, `.expect(..)`, `.unwrap()`, `&e`, `*e` are ignored (value-preserving in the ranges FnTie.v states);
  * `lit.rotate_right(k)` / `rotate_left` on a literal of known width (suffix, or declared type of the const/let) is folded;
  * a place `a.b[0].c` and `place.len()` / `place.index()` are VARIABLES named by their normalised source text;
  * immutable `let x = e;` / `const X: T = e;` inside the function are inlined (in source order, so shadowing works); `let mut`
    variables, parameters, fields and file-level constants stay variables;
  * `!e` is the BOOLEAN negation (the extractors use it only where the operand is a bool);
  * enum paths `E::V` are replaced by the discriminant expression written in `enum E { V = expr, .. }` of the same file.
Rust precedence: `||` < `&&` < comparisons < `|` < `^` < `&` < `<< >>` < `+ -` < `* / %` < `as` < unary < postfix."""
import os, re

REPO_SRC = "/repo/src"


class Unsupported(Exception):
    pass


# ------------------------------------------------------------------------------------------------------------------
# tokens
# ------------------------------------------------------------------------------------------------------------------

PUNCT = ["<<=", ">>=", "..=", "...", "<<", ">>", "<=", ">=", "==", "!=", "&&", "||", "+=", "-=", "*=", "/=", "%=", "&=", "|=", "^=",
         "->", "=>", "::", ".."]
INT_SUFFIX = re.compile(r"(u8|u16|u32|u64|u128|usize|i8|i16|i32|i64|i128|isize)$")
WIDTH = {"u8": 8, "u16": 16, "u32": 32, "u64": 64, "u128": 128, "usize": 64}


def tokenize(src):
    """-> list of (kind, text); kind in id / num / str / chr / life / p"""
    toks, i, n = [], 0, len(src)
    while i < n:
        c = src[i]
        if c.isspace():
            i += 1
        elif src.startswith("//", i):
            j = src.find("\n", i)
            i = n if j < 0 else j
        elif src.startswith("/*", i):
            depth, i = 1, i + 2
            while i < n and depth:
                if src.startswith("/*", i):
                    depth += 1; i += 2
                elif src.startswith("*/", i):
                    depth -= 1; i += 2
                else:
                    i += 1
        elif c == '"' or (c in "br" and re.match(r'(b|r|br)#*"', src[i:i + 6])):
            m = re.match(r'(b|r|br)?(#*)"', src[i:])
            raw = m.group(1) and "r" in m.group(1)
            hashes = m.group(2)
            j = i + m.end()
            if raw:
                k = src.find('"' + hashes, j)
                k = n if k < 0 else k + 1 + len(hashes)
            else:
                k = j
                while k < n and src[k] != '"':
                    k += 2 if src[k] == "\\" else 1
                k += 1
            toks.append(("str", src[i:k])); i = k
        elif c == "'":
            m = re.match(r"'(\\.[^']*|[^'\\])'", src[i:])
            if m:
                toks.append(("chr", m.group(0))); i += m.end()
            else:
                m = re.match(r"'[A-Za-z_][A-Za-z0-9_]*", src[i:])
                if m:
                    toks.append(("life", m.group(0))); i += m.end()
                else:
                    toks.append(("p", c)); i += 1
        elif c.isdigit():
            m = re.match(r"0x[0-9a-fA-F_]+|0o[0-7_]+|0b[01_]+|[0-9][0-9_]*", src[i:])
            j = i + m.end()
            m2 = re.match(r"[A-Za-z0-9_]*", src[j:])
            toks.append(("num", src[i:j + m2.end()])); i = j + m2.end()
        elif c.isalpha() or c == "_":
            m = re.match(r"[A-Za-z_][A-Za-z0-9_]*", src[i:])
            toks.append(("id", m.group(0))); i += m.end()
        else:
            for p in PUNCT:
                if src.startswith(p, i):
                    toks.append(("p", p)); i += len(p)
                    break
            else:
                toks.append(("p", c)); i += 1
    return toks


OPEN = {"(": ")", "[": "]", "{": "}"}
CLOSE = {")", "]", "}"}


def match_close(toks, i):
    """toks[i] is an opening bracket: index of its closing bracket (or len(toks))"""
    depth = 0
    for j in range(i, len(toks)):
        k, t = toks[j]
        if k == "p" and t in OPEN:
            depth += 1
        elif k == "p" and t in CLOSE:
            depth -= 1
            if depth == 0:
                return j
    return len(toks)


def text_of(toks):
    return " ".join(t for _, t in toks)


# ------------------------------------------------------------------------------------------------------------------
# expressions.  AST: ("lit", n, width|None) ("var", name) ("not", a) ("bin", op, a, b) ("if", c, blkA, blkB) ("tuple", [..])
# where blk = (stmts, tail expression or None)
# ------------------------------------------------------------------------------------------------------------------

BINOPS = [  # lowest precedence first; (tokens -> op name), associativity is left; comparisons do not chain
    {"||": "LOr"}, {"&&": "LAnd"},
    {"==": "Eq", "!=": "Ne", "<": "Lt", "<=": "Le", ">": "Gt", ">=": "Ge"},
    {"|": "Or"}, {"^": "Xor"}, {"&": "And"}, {"<<": "Shl", ">>": "Shr"}, {"+": "Add", "-": "Sub"}, {"*": "Mul"},
]
CAST_FNS = {"try_from", "from"}
PLACE_METHODS = {"len", "index"}          # nullary getters: `place.len()` / `place.index()` are variables of that name
IDENTITY_METHODS = {"try_into", "into", "expect", "unwrap", "clone", "to_owned"}
KEYWORDS = {"let", "const", "if", "else", "while", "for", "loop", "match", "return", "fn", "mut", "as", "unsafe", "break", "continue",
            "struct", "enum", "impl", "pub", "use", "mod", "in", "ref", "move", "async", "await", "dyn", "where", "static"}


def parse_int(text):
    m = INT_SUFFIX.search(text)
    suf = m.group(1) if m else None
    body = text[:m.start()] if m else text
    body = body.replace("_", "")
    if not body or not re.fullmatch(r"0x[0-9a-fA-F]+|0o[0-7]+|0b[01]+|[0-9]+", body):
        raise Unsupported("literal " + text)
    return int(body, 0), WIDTH.get(suf)


class Parser:
    def __init__(self, toks):
        self.t, self.i = toks, 0

    def peek(self, k=0):
        return self.t[self.i + k] if self.i + k < len(self.t) else ("eof", "")

    def at(self, text, k=0):
        kind, t = self.peek(k)
        return kind in ("p", "id") and t == text

    def eat(self, text):
        if not self.at(text):
            raise Unsupported("expected %r at %r" % (text, text_of(self.t[self.i:self.i + 6])))
        self.i += 1

    def done(self):
        return self.i >= len(self.t)

    # ---- expressions ----
    def expr(self, level=0):
        if level == len(BINOPS):
            return self.cast()
        a = self.expr(level + 1)
        table = BINOPS[level]
        while True:
            kind, t = self.peek()
            if kind == "p" and t in table:
                self.i += 1
                b = self.expr(level + 1)
                a = ("bin", table[t], a, b)
                if level == 2:            # comparison operators are non-associative in Rust
                    k2, t2 = self.peek()
                    if k2 == "p" and t2 in table:
                        raise Unsupported("chained comparison")
                    return a
            else:
                return a

    def cast(self):
        a = self.unary()
        while self.at("as"):
            self.i += 1
            ty = self.type_tokens()
            w = WIDTH.get(text_of(ty))
            if a[0] == "lit" and w:
                a = ("lit", a[1], w)
        return a

    def type_tokens(self):
        """a simple type after `as`: a path with optional generic arguments"""
        start = self.i
        kind, t = self.peek()
        if kind != "id":
            raise Unsupported("type")
        self.i += 1
        while self.at("::") and self.peek(1)[0] == "id":
            self.i += 2
        return self.t[start:self.i]

    def unary(self):
        kind, t = self.peek()
        if kind == "p" and t == "!":
            self.i += 1
            return ("not", self.unary())
        if kind == "p" and t in ("&", "*"):            # reference / dereference of a place: ignored
            self.i += 1
            if self.at("mut"):
                self.i += 1
            return self.unary()
        if kind == "p" and t == "&&":
            self.i += 1
            return self.unary()
        if kind == "p" and t == "-":
            raise Unsupported("unary minus")
        return self.postfix()

    def postfix(self):
        a = self.atom()
        while True:
            if self.at(".") and self.peek(1)[0] == "id":
                name = self.peek(1)[1]
                if self.at("(", 2) or self.at("::", 2):        # method call (possibly with turbofish)
                    j = self.i + 2
                    if self.at("::", 2):
                        if not self.at("<", 3):
                            raise Unsupported("turbofish")
                        depth, j = 0, self.i + 3
                        while j < len(self.t):
                            if self.t[j] == ("p", "<"):
                                depth += 1
                            elif self.t[j] == ("p", ">"):
                                depth -= 1
                                if depth == 0:
                                    break
                            elif self.t[j] == ("p", ">>"):
                                depth -= 2
                                if depth <= 0:
                                    break
                            j += 1
                        j += 1
                        if j >= len(self.t) or self.t[j] != ("p", "("):
                            raise Unsupported("turbofish call")
                    close = match_close(self.t, j)
                    args = self.t[j + 1:close]
                    self.i = close + 1
                    if name in IDENTITY_METHODS:
                        continue
                    if name in PLACE_METHODS and not args and a[0] == "var":
                        a = ("var", a[1] + "." + name + "()")
                        continue
                    if name in ("rotate_right", "rotate_left") and a[0] == "lit" and a[2]:
                        k = Parser(list(args)).expr_all()
                        if k[0] != "lit":
                            raise Unsupported("rotate by a non-literal")
                        w, v, r = a[2], a[1], k[1] % a[2]
                        if name == "rotate_left":
                            r = (w - r) % w
                        a = ("lit", ((v >> r) | (v << (w - r))) & ((1 << w) - 1), w)
                        continue
                    raise Unsupported("method ." + name)
                if name == "await":
                    raise Unsupported("await")
                if a[0] != "var":
                    raise Unsupported("field of a non-place")
                a = ("var", a[1] + "." + name)
                self.i += 2
            elif self.at(".") and self.peek(1)[0] == "num":      # tuple field
                if a[0] != "var":
                    raise Unsupported("tuple field of a non-place")
                a = ("var", a[1] + "." + self.peek(1)[1])
                self.i += 2
            elif self.at("["):
                close = match_close(self.t, self.i)
                idx = Parser(list(self.t[self.i + 1:close])).expr_all()
                if a[0] != "var" or idx[0] != "lit":
                    raise Unsupported("index")
                a = ("var", "%s[%d]" % (a[1], idx[1]))
                self.i = close + 1
            elif self.at("?"):
                raise Unsupported("?")
            else:
                return a

    def atom(self):
        kind, t = self.peek()
        if kind == "num":
            self.i += 1
            v, w = parse_int(t)
            return ("lit", v, w)
        if kind == "id" and t in ("true", "false"):
            self.i += 1
            return ("lit", 1 if t == "true" else 0, None)
        if kind == "id" and t == "if":
            return self.if_expr()
        if kind == "p" and t == "(":
            close = match_close(self.t, self.i)
            inner = list(self.t[self.i + 1:close])
            self.i = close + 1
            parts, depth, cur = [], 0, []
            for tok in inner:
                if tok[0] == "p" and tok[1] in OPEN:
                    depth += 1
                elif tok[0] == "p" and tok[1] in CLOSE:
                    depth -= 1
                if tok == ("p", ",") and depth == 0:
                    parts.append(cur); cur = []
                else:
                    cur.append(tok)
            if len(parts) == 0:
                if not cur:
                    raise Unsupported("unit")
                return Parser(cur).expr_all()
            if cur:
                parts.append(cur)
            return ("tuple", [Parser(p).expr_all() for p in parts])
        if kind == "id" and t not in KEYWORDS:
            path = [t]
            self.i += 1
            while self.at("::") and self.peek(1)[0] == "id":
                path.append(self.peek(1)[1])
                self.i += 2
            if self.at("!"):
                if self.peek(1) in (("p", "("), ("p", "["), ("p", "{")):
                    raise Unsupported("macro " + t)
            if self.at("("):
                close = match_close(self.t, self.i)
                args = list(self.t[self.i + 1:close])
                if len(path) >= 2 and path[-1] in CAST_FNS:          # usize::try_from(e), u64::from(e): a conversion
                    self.i = close + 1
                    return Parser(args).expr_all()
                raise Unsupported("call of " + "::".join(path))
            if self.at("{") and path[-1][:1].isupper():
                # a struct literal can only follow a path in expression position outside `if`/`while` conditions; conditions
                # never reach here with `{` pending because no operator precedes the block
                pass
            return ("var", "::".join(path))
        raise Unsupported("token %r" % (t,))

    def expr_all(self):
        e = self.expr()
        if not self.done():
            raise Unsupported("trailing tokens " + text_of(self.t[self.i:self.i + 6]))
        return e

    def if_expr(self):
        self.eat("if")
        if self.at("let"):
            raise Unsupported("if let")
        c = self.expr()
        a = self.block()
        b = None
        if self.at("else"):
            self.i += 1
            if self.at("if"):
                b = ([], self.if_expr())
            else:
                b = self.block()
        return ("if", c, a, b)

    # ---- blocks and statements ----
    def block(self):
        if not self.at("{"):
            raise Unsupported("expected block")
        close = match_close(self.t, self.i)
        inner = list(self.t[self.i + 1:close])
        self.i = close + 1
        return parse_block(inner)


def split_statements(toks):
    """-> list of (token list, terminated_by_semicolon)"""
    out, i, n = [], 0, len(toks)
    while i < n:
        start = i
        kind, t = toks[i]
        if kind == "id" and t in ("if", "while", "for", "loop", "match", "unsafe") or (kind == "p" and t == "{"):
            # block-like: up to the closing brace of its last block (else-chains included)
            while True:
                depth = 0
                while i < n and not (toks[i] == ("p", "{") and depth == 0):
                    if toks[i][0] == "p" and toks[i][1] in ("(", "["):
                        depth += 1
                    elif toks[i][0] == "p" and toks[i][1] in (")", "]"):
                        depth -= 1
                    i += 1
                i = match_close(toks, i) + 1
                if i < n and toks[i] == ("id", "else"):
                    i += 1
                    continue
                break
            if i < n and toks[i] == ("p", ";"):
                out.append((toks[start:i], True)); i += 1
            elif i < n and toks[i][0] == "p" and toks[i][1] in (".", "?"):
                # a block-like expression continued by a method call: treat the whole as one opaque statement
                while i < n and toks[i] != ("p", ";"):
                    i = match_close(toks, i) + 1 if toks[i][0] == "p" and toks[i][1] in OPEN else i + 1
                out.append((toks[start:i], i < n)); i += 1
            else:
                out.append((toks[start:i], False))
        else:
            while i < n and toks[i] != ("p", ";"):
                i = match_close(toks, i) + 1 if toks[i][0] == "p" and toks[i][1] in OPEN else i + 1
            out.append((toks[start:min(i, n)], i < n)); i += 1
    return out


ASSIGN_OPS = {"=": None, "+=": "Add", "-=": "Sub", "*=": "Mul", "<<=": "Shl", ">>=": "Shr", "&=": "And", "|=": "Or", "^=": "Xor"}


def find_top(toks, texts):
    depth = 0
    for j, (k, t) in enumerate(toks):
        if k == "p" and t in OPEN:
            depth += 1
        elif k == "p" and t in CLOSE:
            depth -= 1
        elif k == "p" and t in texts and depth == 0:
            return j
    return -1


def parse_statement(toks):
    """statement AST:
       ("let", name, mutable, expr|None, type tokens, raw text)   ("const", name, expr|None, type tokens)
       ("assign", place name, op|None, expr)             ("return", expr|None, raw text)
       ("ifs", cond, blkA, blkB|None)                    ("expr", e)            ("opaque", raw text)"""
    raw = text_of(toks)
    try:
        kind, t = toks[0]
        if (kind, t) in (("id", "let"), ("id", "const")):
            eq = find_top(toks, {"="})
            head = toks[1:eq] if eq >= 0 else toks[1:]
            mutable = bool(head) and head[0] == ("id", "mut")
            if mutable:
                head = head[1:]
            if not head or head[0][0] != "id" or (len(head) > 1 and head[1] != ("p", ":")):
                return ("opaque", raw)
            name, ty = head[0][1], head[2:]
            e = None
            if eq >= 0:
                try:
                    e = Parser(list(toks[eq + 1:])).expr_all()
                    w = WIDTH.get(text_of(ty))
                    if e[0] == "lit" and w and not e[2]:
                        e = ("lit", e[1], w)
                except Unsupported:
                    e = None
            if t == "const":
                return ("const", name, e, ty)
            return ("let", name, mutable, e, ty, raw)
        if (kind, t) == ("id", "return"):
            try:
                e = Parser(list(toks[1:])).expr_all() if len(toks) > 1 else None
            except Unsupported:
                e = None
            return ("return", e, text_of(toks[1:]))
        if (kind, t) == ("id", "if"):
            p = Parser(list(toks))
            e = p.if_expr()
            if not p.done():
                raise Unsupported("trailing")
            return ("ifs", e[1], e[2], e[3])
        j = find_top(toks, set(ASSIGN_OPS))
        if j > 0:
            lhs = Parser(list(toks[:j])).expr_all()
            rhs = Parser(list(toks[j + 1:])).expr_all()
            if lhs[0] != "var":
                raise Unsupported("assignment to a non-place")
            return ("assign", lhs[1], ASSIGN_OPS[toks[j][1]], rhs)
        return ("expr", Parser(list(toks)).expr_all())
    except Unsupported:
        return ("opaque", raw)


def parse_block(toks):
    """-> (statements, tail expression AST or None). A last item without `;` that is an expression is the tail."""
    items = split_statements(toks)
    stmts, tail = [], None
    for n, (st, semi) in enumerate(items):
        if not st:
            continue
        s = parse_statement(st)
        last = n == len(items) - 1
        if last and not semi:
            if s[0] == "expr":
                tail = s[1]
                continue
            if s[0] == "ifs" and s[3] is not None:
                tail = ("if", s[1], s[2], s[3])
                continue
        stmts.append(s)
    return stmts, tail


# ------------------------------------------------------------------------------------------------------------------
# functions, enums, substitution
# ------------------------------------------------------------------------------------------------------------------

def find_fn(toks, name):
    """-> (parameter names, parameter type texts, body block) or None"""
    for i in range(len(toks) - 2):
        if toks[i] == ("id", "fn") and toks[i + 1] == ("id", name):
            j = i + 2
            while j < len(toks) and toks[j] != ("p", "("):
                j += 1
            if j >= len(toks):
                return None
            close = match_close(toks, j)
            params, depth, cur = [], 0, []
            for tok in toks[j + 1:close]:
                if tok[0] == "p" and tok[1] in ("(", "[", "{", "<"):
                    depth += 1
                elif tok[0] == "p" and tok[1] in (")", "]", "}", ">"):
                    depth -= 1
                if tok == ("p", ",") and depth == 0:
                    params.append(cur); cur = []
                else:
                    cur.append(tok)
            if cur:
                params.append(cur)
            names, types = [], []
            for p in params:
                q = [x for x in p if x not in (("p", "&"), ("id", "mut")) and x[0] != "life"]
                if q and q[0][0] == "id":
                    names.append(q[0][1])
                    c = find_top(p, {":"})
                    types.append(text_of(p[c + 1:]) if c >= 0 else "")
            k = close
            while k < len(toks) and toks[k] != ("p", "{"):
                if toks[k] == ("p", ";"):
                    return None
                k += 1
            if k >= len(toks):
                return None
            end = match_close(toks, k)
            try:
                return names, types, parse_block(list(toks[k + 1:end]))
            except Unsupported:
                return None
    return None


def find_enum(toks, name):
    """-> {variant: discriminant AST} for `enum name { V = expr, .. }` (variants without a discriminant are skipped)"""
    for i in range(len(toks) - 2):
        if toks[i] == ("id", "enum") and toks[i + 1] == ("id", name) and toks[i + 2] == ("p", "{"):
            close = match_close(toks, i + 2)
            out, cur = {}, []
            for tok in list(toks[i + 3:close]) + [("p", ",")]:
                if tok == ("p", ","):
                    eq = find_top(cur, {"="})
                    if eq == 1 and cur[0][0] == "id":
                        try:
                            out[cur[0][1]] = Parser(cur[2:]).expr_all()
                        except Unsupported:
                            pass
                    cur = []
                else:
                    cur.append(tok)
            return out
    return {}


def subst(e, env):
    if e is None:
        return None
    k = e[0]
    if k == "var":
        if e[1] in env:
            return env[e[1]]
        return e
    if k == "not":
        return ("not", subst(e[1], env))
    if k == "bin":
        return ("bin", e[1], subst(e[2], env), subst(e[3], env))
    if k == "tuple":
        return ("tuple", [subst(x, env) for x in e[1]])
    if k == "if":
        def blk(b):
            if b is None:
                return None
            st, tail = b
            return (st, subst(tail, env))          # statements inside are not rewritten (pure() refuses them anyway)
        return ("if", subst(e[1], env), blk(e[2]), blk(e[3]))
    return e


def scope_after(stmts, env=None):
    """environment of the immutable lets / consts of a statement list, each right-hand side already inlined"""
    env = dict(env or {})
    for s in stmts:
        if s[0] == "const" and s[2] is not None:
            env[s[1]] = subst(s[2], env)
        elif s[0] == "let":
            if s[3] is not None and not s[2]:
                env[s[1]] = subst(s[3], env)
            else:
                env.pop(s[1], None)
    return env


def pure(e):
    """the emit-able form: no tuples, `if` with statement-free blocks and an else branch"""
    k = e[0]
    if k == "lit":
        return ("lit", e[1])
    if k == "var":
        return e
    if k == "not":
        return ("not", pure(e[1]))
    if k == "bin":
        return ("bin", e[1], pure(e[2]), pure(e[3]))
    if k == "if":
        if e[3] is None or e[2][0] or e[3][0] or e[2][1] is None or e[3][1] is None:
            raise Unsupported("if with statements")
        return ("if", pure(e[1]), pure(e[2][1]), pure(e[3][1]))
    raise Unsupported(k)


def free_vars(e):
    k = e[0]
    if k == "var":
        return {e[1]}
    if k == "lit":
        return set()
    if k == "not":
        return free_vars(e[1])
    if k == "bin":
        return free_vars(e[2]) | free_vars(e[3])
    if k == "if":
        return free_vars(e[1]) | free_vars(e[2]) | free_vars(e[3])
    return set()


def finish(e, env, allowed):
    """inline, purify, check the free variables; None when anything is outside the subset"""
    if e is None:
        return None
    try:
        p = pure(subst(e, env))
    except Unsupported:
        return None
    if not free_vars(p) <= set(allowed):
        return None
    return p


def resolve_enum(e, toks):
    """replace a variable `Enum::Variant` by the discriminant expression of the enum declared in the same file"""
    if e is None or e[0] != "var" or "::" not in e[1]:
        return e
    en, _, var = e[1].rpartition("::")
    d = find_enum(toks, en.split("::")[-1])
    return d.get(var)


# ------------------------------------------------------------------------------------------------------------------
# extractors
# ------------------------------------------------------------------------------------------------------------------

# item name -> (file, the free variables FnTie.v gives a value to)
ITEMS = [
    ("leader_word",          "oplog/mod.rs", ["data_length", "header_bit", "partial_bit"]),
    ("leader_guard",         "oplog/mod.rs", ["data_length"]),
    ("leader_min_len",       "oplog/mod.rs", ["buffer.len()"]),
    ("leader_len",           "oplog/mod.rs", ["combined"]),
    ("leader_header_bit",    "oplog/mod.rs", ["combined"]),
    ("leader_partial_bit",   "oplog/mod.rs", ["combined"]),
    ("leader_no_frame",      "oplog/mod.rs", ["combined", "data_buff.len()"]),
    ("leader_zone_lo",       "oplog/mod.rs", ["combined", "CRC_SIZE", "LEADER_SIZE"]),
    ("leader_zone_hi",       "oplog/mod.rs", ["combined", "CRC_SIZE", "LEADER_SIZE"]),
    ("current_bit",          "oplog/mod.rs", ["self.header_bits[0]", "self.header_bits[1]"]),
    ("next_slot_cond",       "oplog/mod.rs", ["header_bits[0]", "header_bits[1]"]),
    ("next_slot_then_slot",  "oplog/mod.rs", ["HEADER_SIZE"]),
    ("next_slot_then_bit",   "oplog/mod.rs", ["header_bits[0]", "header_bits[1]"]),
    ("next_slot_else_slot",  "oplog/mod.rs", ["HEADER_SIZE"]),
    ("next_slot_else_bit",   "oplog/mod.rs", ["header_bits[0]", "header_bits[1]"]),
    ("contig_end",           "core.rs", ["bitfield_update.start", "bitfield_update.length"]),
    ("contig_drop_cond",     "core.rs", ["c", "bitfield_update.start", "bitfield_update.length"]),
    ("contig_drop_value",    "core.rs", ["c", "bitfield_update.start", "bitfield_update.length"]),
    ("contig_set_cond",      "core.rs", ["c", "bitfield_update.start", "bitfield_update.length"]),
    ("contig_set_from",      "core.rs", ["c", "bitfield_update.start", "bitfield_update.length"]),
    ("flush_cond",           "core.rs", ["self.skip_flush_count", "self.oplog.entries_byte_length", "MAX_OPLOG_ENTRIES_BYTE_SIZE"]),
    ("flush_skip_then",      "core.rs", ["self.skip_flush_count"]),
    ("flush_skip_else",      "core.rs", ["self.skip_flush_count"]),
    ("flush_result_then",    "core.rs", []),
    ("flush_result_else",    "core.rs", []),
]
ALLOWED = {n: a for n, _, a in ITEMS}


def returns_none(blk):
    """the block is exactly `return Ok(None);`"""
    st, tail = blk
    return tail is None and len(st) == 1 and st[0][0] == "return" and re.sub(r"\s+", "", st[0][2]) == "Ok(None)"


def is_panic(blk):
    st, tail = blk
    return tail is None and len(st) == 1 and st[0][0] == "opaque" and re.match(r"panic\s*!", st[0][1]) is not None


def the_assignment(blk, place):
    """value of `place` after the block, when the block's statements are all understood and exactly one assigns `place`"""
    st, _ = blk
    hits = [s for s in st if s[0] == "assign" and s[1] == place]
    if len(hits) != 1 or any(s[0] in ("opaque", "ifs", "let", "const", "return") for s in st):
        return None
    _, _, op, rhs = hits[0]
    return rhs if op is None else ("bin", op, ("var", place), rhs)


def extract_oplog(toks, out):
    # ---- build_len_and_info_header ----
    f = find_fn(toks, "build_len_and_info_header")
    if f:
        names, _, (stmts, tail) = f
        env = scope_after(stmts)
        out["leader_word"] = finish(tail, env, ALLOWED["leader_word"])
        guards = [(n, s) for n, s in enumerate(stmts) if s[0] == "ifs" and s[3] is None and is_panic(s[2])]
        if len(guards) == 1:
            n, s = guards[0]
            out["leader_guard"] = finish(s[1], scope_after(stmts[:n]), ALLOWED["leader_guard"])
    # ---- validate_leader ----
    f = find_fn(toks, "validate_leader")
    if f:
        names, _, (stmts, tail) = f
        env = scope_after(stmts)
        lets = {s[1]: s for s in stmts if s[0] == "let" and not s[2]}
        if names and names[0] != "buffer":
            env_buf = {names[0] + ".len()": ("var", "buffer.len()")}
        else:
            env_buf = {}
        nones = [(n, s) for n, s in enumerate(stmts) if s[0] == "ifs" and s[3] is None and returns_none(s[2])]
        for n, s in nones:
            fv = free_vars(pure_or_empty(s[1]))
            if names and (names[0] + ".len()") in fv and "leader_min_len" not in out:
                out["leader_min_len"] = finish(s[1], dict(scope_after(stmts[:n]), **env_buf), ALLOWED["leader_min_len"])
            elif "len" in fv and "leader_no_frame" not in out:
                out["leader_no_frame"] = finish(s[1], scope_after(stmts[:n]), ALLOWED["leader_no_frame"])
        for item, var in (("leader_len", "len"), ("leader_header_bit", "header_bit"), ("leader_partial_bit", "partial_bit")):
            if var in lets:
                n = stmts.index(lets[var])
                out[item] = finish(lets[var][3], scope_after(stmts[:n]), ALLOWED[item])
        # let to_hash = &buffer[A..B];
        for n, s in enumerate(stmts):
            if s[0] == "let" and s[1] == "to_hash" and s[3] is None:
                m = re.fullmatch(r"let to_hash = & (\w+) \[ (.+?) \.\. (.+) \]", s[5])
                if m and names and m.group(1) == names[0]:
                    sc = scope_after(stmts[:n])
                    try:
                        lo = Parser(tokenize(m.group(2))).expr_all()
                        hi = Parser(tokenize(m.group(3))).expr_all()
                    except Unsupported:
                        continue
                    out["leader_zone_lo"] = finish(lo, sc, ALLOWED["leader_zone_lo"])
                    out["leader_zone_hi"] = finish(hi, sc, ALLOWED["leader_zone_hi"])
    # ---- get_current_header_bit ----
    f = find_fn(toks, "get_current_header_bit")
    if f:
        names, _, (stmts, tail) = f
        if names[:1] == ["self"] and not [s for s in stmts if s[0] != "let"]:
            out["current_bit"] = finish(tail, scope_after(stmts), ALLOWED["current_bit"])
    # ---- get_next_header_oplog_slot_and_bit_value ----
    f = find_fn(toks, "get_next_header_oplog_slot_and_bit_value")
    if f:
        names, types, (stmts, tail) = f
        ok = len(names) == 1 and "bool" in types[0] and not [s for s in stmts if s[0] != "let"]
        if ok and tail is not None and tail[0] == "if" and tail[3] is not None:
            env = scope_after(stmts)
            if names[0] != "header_bits":
                env = dict(env, **{"%s[%d]" % (names[0], k): ("var", "header_bits[%d]" % k) for k in (0, 1)})
            a, b = tail[2], tail[3]
            if not a[0] and not b[0] and a[1] and b[1] and a[1][0] == "tuple" and b[1][0] == "tuple" \
                    and len(a[1][1]) == 2 and len(b[1][1]) == 2:
                out["next_slot_cond"] = finish(tail[1], env, ALLOWED["next_slot_cond"])
                for nm, tup in (("then", a[1][1]), ("else", b[1][1])):
                    out["next_slot_%s_slot" % nm] = finish(resolve_enum(tup[0], toks), env, ALLOWED["next_slot_%s_slot" % nm])
                    out["next_slot_%s_bit" % nm] = finish(tup[1], env, ALLOWED["next_slot_%s_bit" % nm])


def pure_or_empty(e):
    try:
        return pure(e)
    except Unsupported:
        return ("lit", 0)


def extract_core(toks, out):
    # ---- update_contiguous_length ----
    f = find_fn(toks, "update_contiguous_length")
    if f:
        names, _, (stmts, tail) = f
        env = scope_after(stmts)
        # parameter renames are followed: the third parameter is the update
        ren = {}
        if len(names) == 3 and names[2] != "bitfield_update":
            ren = {names[2] + "." + fl: ("var", "bitfield_update." + fl) for fl in ("start", "length", "drop")}
        lets = {s[1]: (n, s) for n, s in enumerate(stmts) if s[0] == "let"}
        mut = [s[1] for s in stmts if s[0] == "let" and s[2]]
        if "end" in lets and not lets["end"][1][2]:
            n, s = lets["end"]
            out["contig_end"] = finish(subst(s[3], ren), scope_after(stmts[:n]), ALLOWED["contig_end"])
        if len(mut) == 1:
            cvar = mut[0]
            ren2 = dict(ren)
            if cvar != "c":
                ren2[cvar] = ("var", "c")
            for n, s in enumerate(stmts):
                if s[0] == "ifs" and subst(s[1], ren) == ("var", "bitfield_update.drop") and s[3] is not None:
                    sc = scope_after(stmts[:n])
                    fin = lambda e, item: finish(subst(subst(e, sc), ren2), {}, ALLOWED[item]) if e is not None else None
                    tst, ttail = s[2]
                    if ttail is None and len(tst) == 1 and tst[0][0] == "ifs" and tst[0][3] is None:
                        out["contig_drop_cond"] = fin(tst[0][1], "contig_drop_cond")
                        out["contig_drop_value"] = fin(the_assignment(tst[0][2], cvar), "contig_drop_value")
                    est, etail = s[3]
                    inner = etail if (not est and etail is not None and etail[0] == "if") else \
                        (("if",) + est[0][1:] if (len(est) == 1 and est[0][0] == "ifs" and etail is None) else None)
                    if inner is not None and inner[3] is None:
                        out["contig_set_cond"] = fin(inner[1], "contig_set_cond")
                        first = inner[2][0][:1]
                        if first and first[0][0] == "assign" and first[0][1] == cvar and first[0][2] is None:
                            out["contig_set_from"] = fin(first[0][3], "contig_set_from")
                    break
    # ---- should_flush_bitfield_and_tree_and_oplog ----
    f = find_fn(toks, "should_flush_bitfield_and_tree_and_oplog")
    if f:
        names, _, (stmts, tail) = f
        if not stmts and tail is not None and tail[0] == "if" and tail[3] is not None:
            out["flush_cond"] = finish(tail[1], {}, ALLOWED["flush_cond"])
            for nm, blk in (("then", tail[2]), ("else", tail[3])):
                out["flush_skip_" + nm] = finish(the_assignment(blk, "self.skip_flush_count"), {}, ALLOWED["flush_skip_" + nm])
                out["flush_result_" + nm] = finish(blk[1], {}, ALLOWED["flush_result_" + nm])


def extract(src_root=None):
    src_root = src_root or REPO_SRC
    out = {}
    for fname, fn in (("oplog/mod.rs", extract_oplog), ("core.rs", extract_core)):
        try:
            toks = tokenize(open(os.path.join(src_root, fname)).read())
        except OSError:
            continue
        try:
            fn(toks, out)
        except (Unsupported, IndexError, KeyError, TypeError, ValueError):
            pass
    return [(name, f, out.get(name)) for name, f, _ in ITEMS]


# ------------------------------------------------------------------------------------------------------------------
# output
# ------------------------------------------------------------------------------------------------------------------

def coq_of(e):
    k = e[0]
    if k == "lit":
        return "(RLit %d)" % e[1]
    if k == "var":
        return '(RVar "%s")' % e[1]
    if k == "not":
        return "(RNot %s)" % coq_of(e[1])
    if k == "bin":
        return "(RBin O%s %s %s)" % (e[1], coq_of(e[2]), coq_of(e[3]))
    if k == "if":
        return "(RIf %s %s %s)" % (coq_of(e[1]), coq_of(e[2]), coq_of(e[3]))
    raise ValueError(k)


SYM = {"LOr": "||", "LAnd": "&&", "Eq": "==", "Ne": "!=", "Lt": "<", "Le": "<=", "Gt": ">", "Ge": ">=", "Or": "|", "Xor": "^",
       "And": "&", "Shl": "<<", "Shr": ">>", "Add": "+", "Sub": "-", "Mul": "*"}


def show(e):
    k = e[0]
    if k == "lit":
        return str(e[1])
    if k == "var":
        return e[1]
    if k == "not":
        return "!" + show(e[1])
    if k == "bin":
        return "(%s %s %s)" % (show(e[2]), SYM[e[1]], show(e[3]))
    return "if %s { %s } else { %s }" % (show(e[1]), show(e[2]), show(e[3]))


def coq_text(items):
    lines = ["(* generated on every run by tools/srcfns.py from /repo/src/oplog/mod.rs and /repo/src/core.rs: small pure expressions of the",
             "   crate as the source states them now, over the AST of FnDesc.v (None = not found in a recognisable form). FnTie.v proves that",
             "   the model's functions are these expressions. *)",
             "From HC Require Import FnDesc.", "Local Open Scope string_scope.", "Local Open Scope N_scope.", ""]
    for name, f, e in items:
        if e is None:
            lines.append("Definition src_%s : option rexpr := None.   (* %s *)" % (name, f))
        else:
            lines.append("(* %s: %s *)" % (f, show(e).replace("*)", "* )")))
            lines.append("Definition src_%s : option rexpr := Some %s." % (name, coq_of(e)))
    return "\n".join(lines) + "\n"


def regenerate(coq_dir, src_root=None):
    """writes SrcFns.v (only when its content changes, to keep make incremental); returns the list for the evidence"""
    items = extract(src_root)
    txt = coq_text(items)
    p = os.path.join(coq_dir, "SrcFns.v")
    old = open(p).read() if os.path.exists(p) else None
    if old != txt:
        with open(p, "w") as fh:
            fh.write(txt)
    return [dict(name=name, file=f, found=(e is not None), expression=(show(e) if e is not None else None)) for name, f, e in items]


if __name__ == "__main__":
    import sys
    print(coq_text(extract(sys.argv[1] if len(sys.argv) > 1 else REPO_SRC)))

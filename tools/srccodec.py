"""srccodec — a (tiny) translator from the crate's source to Coq: the wire codecs of /repo/src/encoding.rs are almost
declarative (`sum_encoded_size!(self.a, ..)`, `map_encode!(buffer, self.a, ..)`, `map_decode!(buffer, [u64, ..])` + a struct
literal). On every run each `impl CompactEncoding for T` of the eight message types is parsed and written to coq/SrcCodec.v
as an `option codec_desc`:
  cd_size       the ordered (field, type) list summed by `encoded_size`
  cd_enc        the ordered (field, type) list written by `encode`
  cd_dec_types  the ordered type list read by `decode`
  cd_ctor       for each value read by `decode`, in order, the field of the result it is assigned to
The field types come from the struct definitions (common/peer.rs, common/node.rs). `None` when the impl (or the struct) is
no longer in the recognisable syntactic form — a refactor must not raise an alarm. A field whose form IS recognised but whose
type the model has no codec for (say u32, or as_array::<64>) is emitted as `FOther "<rust type>"`, which no proof of
coq/CodecTie.v can accept. CodecTie.v proves that the encoders/sizes of coq/Codec.v are the generic interpretation of these
descriptions: a reordered, added, dropped or retyped field breaks a proof obligation even when no generated message happens
to show it."""
import os, re

REPO_SRC = "/repo/src"
ENCODING = "encoding.rs"

# (Rust type, file with the struct definition)
TYPES = [
    ("Node", "common/node.rs"),
    ("RequestBlock", "common/peer.rs"),
    ("RequestSeek", "common/peer.rs"),
    ("RequestUpgrade", "common/peer.rs"),
    ("DataBlock", "common/peer.rs"),
    ("DataHash", "common/peer.rs"),
    ("DataSeek", "common/peer.rs"),
    ("DataUpgrade", "common/peer.rs"),
]

IDENT = r"[A-Za-z_][A-Za-z0-9_]*"


class Unrecognised(Exception):
    pass


def strip_comments(src):
    src = re.sub(r"/\*.*?\*/", " ", src, flags=re.S)
    return "\n".join(l.split("//")[0] for l in src.split("\n"))


def read(path):
    try:
        return strip_comments(open(path).read())
    except OSError:
        raise Unrecognised("no file " + path)


def match_close(src, i):
    """src[i] is an opening bracket -> index of the matching closing one"""
    pairs = {"(": ")", "[": "]", "{": "}"}
    stack = []
    for j in range(i, len(src)):
        c = src[j]
        if c in pairs:
            stack.append(pairs[c])
        elif c in ")]}":
            if not stack or stack.pop() != c:
                raise Unrecognised("unbalanced brackets")
            if not stack:
                return j
    raise Unrecognised("unbalanced brackets")


def split_top(s, sep=","):
    """split at the separators that are not inside () [] {}; a trailing empty piece is dropped"""
    out, depth, cur = [], 0, ""
    for c in s:
        if c in "([{":
            depth += 1
        elif c in ")]}":
            depth -= 1
        if c == sep and depth == 0:
            out.append(cur.strip())
            cur = ""
        else:
            cur += c
    if cur.strip():
        out.append(cur.strip())
    return out


def norm(s):
    return re.sub(r"\s+", " ", s).strip()


def squeeze(s):
    return re.sub(r"\s+", "", s)


def block_after(src, header_re):
    """body (without the braces) of the first `{ .. }` that follows the unique match of header_re"""
    ms = list(re.finditer(header_re, src))
    if len(ms) != 1:
        raise Unrecognised("expected exactly one %s" % header_re)
    i = src.find("{", ms[0].end() - 1)
    if i < 0:
        raise Unrecognised("no body")
    return src[i + 1:match_close(src, i)]


def fn_body(block, name):
    ms = list(re.finditer(r"\bfn\s+%s\b" % name, block))
    if len(ms) != 1:
        raise Unrecognised("fn %s" % name)
    # the signatures at hand contain no braces: the first `{` opens the body
    i = block.find("{", ms[0].end())
    if i < 0:
        raise Unrecognised("fn %s has no body" % name)
    return block[i + 1:match_close(block, i)]


def statements(body):
    return [norm(x) for x in split_top(body, ";")]


def macro_args(expr, macro):
    """expr == `macro!( .. )` (or with [] / {}) -> the top-level comma separated arguments"""
    m = re.fullmatch(r"%s\s*!\s*([(\[{])(.*)[)\]}]" % macro, expr, flags=re.S)
    if not m:
        raise Unrecognised(macro)
    return split_top(m.group(2))


def ok_arg(expr):
    m = re.fullmatch(r"Ok\s*\((.*)\)", expr, flags=re.S)
    if not m or match_close(expr, expr.index("(")) != len(expr) - 1:
        raise Unrecognised("Ok(..)")
    return m.group(1).strip()


def struct_fields(src_root, ty, f):
    """ordered [(field, rust type)] of `struct ty { .. }`"""
    body = block_after(read(os.path.join(src_root, f)), r"\bstruct\s+%s\s*\{" % ty)
    out = []
    for item in split_top(body):
        item = re.sub(r"#\s*\[[^\]]*\]", " ", item)
        m = re.fullmatch(r"\s*(?:pub\s*(?:\([^)]*\))?\s*)?(%s)\s*:\s*(.+)" % IDENT, item, flags=re.S)
        if not m:
            raise Unrecognised("struct field " + item)
        out.append((m.group(1), squeeze(m.group(2))))
    return out


RUST_TY = {"u64": "FU64", "Vec<u8>": "FBytes", "Vec<Node>": "FNodes", "[u8;32]": "FHash32"}


def fty(rust):
    r = squeeze(rust)
    return RUST_TY.get(r, ("FOther", r))


def self_field(expr):
    m = re.fullmatch(r"self\s*\.\s*(%s)" % IDENT, expr)
    return m.group(1) if m else None


def parse_size(body, fields, fixed):
    """-> [(field, fty)]; fixed: {array length: field} of the fields `encode` writes as fixed arrays"""
    st = statements(body)
    if len(st) != 1:
        raise Unrecognised("encoded_size: one expression expected")
    e = st[0]
    m = re.fullmatch(r"self\s*\.\s*(%s)\s*\.\s*encoded_size\s*\(\s*\)" % IDENT, e)
    if m:
        names, extra = [m.group(1)], []
    else:
        e = ok_arg(e)
        parts = split_top(e, "+")
        names = []
        for a in macro_args(parts[0], "sum_encoded_size"):
            n = self_field(a)
            if n is None:
                raise Unrecognised("sum_encoded_size! argument " + a)
            names.append(n)
        extra = parts[1:]
    out = []
    for n in names:
        if n not in fields:
            raise Unrecognised("no field " + n)
        out.append((n, fty(fields[n])))
    for k in extra:
        if not re.fullmatch(r"\d+", k):
            raise Unrecognised("encoded_size: + " + k)
        k = int(k)
        # a constant stands for the field that `encode` writes as a fixed array of that length
        if k in fixed and fixed[k]:
            out.append((fixed[k].pop(0), fty("[u8;%d]" % k)))
        else:
            out.append(("", ("FOther", "+ %d" % k)))
    return out


def parse_encode(body, fields):
    """-> ([(field, fty)], {array length: [fields written as a fixed array of that length]})"""
    st = statements(body)
    if not st:
        raise Unrecognised("encode: empty")
    m = re.fullmatch(r"self\s*\.\s*(%s)\s*\.\s*encode\s*\(\s*buffer\s*\)" % IDENT, st[-1])
    if m and len(st) == 1:
        n = m.group(1)
        if n not in fields:
            raise Unrecognised("no field " + n)
        return [(n, fty(fields[n]))], {}
    local = {}
    for s in st[:-1]:
        m = re.fullmatch(r"let (%s) = as_array\s*::\s*<\s*(\d+)\s*>\s*\(\s*&\s*self\s*\.\s*(%s)\s*\)\s*\?" % (IDENT, IDENT), s)
        if not m:
            raise Unrecognised("encode: statement " + s)
        local[m.group(1)] = (m.group(3), int(m.group(2)))
    args = macro_args(ok_arg(st[-1]), "map_encode")
    if not args or args[0] != "buffer":
        raise Unrecognised("map_encode!(buffer, ..)")
    out, fixed = [], {}
    for a in args[1:]:
        n = self_field(a)
        if n is not None:
            if n not in fields:
                raise Unrecognised("no field " + n)
            out.append((n, fty(fields[n])))
        elif a in local:
            n, k = local[a]
            if n not in fields:
                raise Unrecognised("no field " + n)
            if squeeze(fields[n]) == "Vec<u8>":
                out.append((n, fty("[u8;%d]" % k)))
            else:
                out.append((n, ("FOther", "as_array::<%d> of %s" % (k, fields[n]))))
            fixed.setdefault(k, []).append(n)
        else:
            raise Unrecognised("map_encode! argument " + a)
    if set(local) - set(args[1:]):
        raise Unrecognised("encode: unused local")
    return out, fixed


def ctor_params(src_root, ty, f, fn):
    """`ty::fn(p1: T1, ..) -> Self { .. Self { p1, .. } }`: the parameters, each of which must initialise the field of its
    own name (shorthand) in the `Self { .. }` / `ty { .. }` literal of the body"""
    src = read(os.path.join(src_root, f))
    impls = [m for m in re.finditer(r"\bimpl\s+%s\s*\{" % ty, src)]
    for im in impls:
        block = src[im.end():match_close(src, im.end() - 1)]
        m = re.search(r"\bfn\s+%s\s*\(" % fn, block)
        if not m:
            continue
        close = match_close(block, m.end() - 1)
        params = []
        for p in split_top(block[m.end():close]):
            pm = re.fullmatch(r"(%s)\s*:\s*.+" % IDENT, p, flags=re.S)
            if not pm:
                raise Unrecognised("parameter " + p)
            params.append(pm.group(1))
        i = block.find("{", close)
        body = block[i + 1:match_close(block, i)]
        lits = [l for l in re.finditer(r"\b(?:Self|%s)\s*\{" % ty, body)]
        if len(lits) != 1:
            raise Unrecognised("constructor body")
        items = split_top(body[lits[0].end():match_close(body, lits[0].end() - 1)])
        for p in params:
            if p not in items:
                raise Unrecognised("parameter %s is not stored in the field of its name" % p)
        return params
    raise Unrecognised("no fn %s::%s" % (ty, fn))


def parse_decode(body, ty, fields, src_root, f):
    """-> ([fty read, in order], [field each value read is assigned to, in order])"""
    st = statements(body)
    if len(st) != 2:
        raise Unrecognised("decode: two statements expected")
    m = re.fullmatch(r"let \( ?(.*) ?, ?(%s) ?,? ?\) = (.*)" % IDENT, st[0])
    if not m:
        raise Unrecognised("decode: let")
    pat, rest, rhs = m.group(1).strip(), m.group(2), m.group(3).strip()
    if pat.startswith("("):
        if match_close(pat, 0) != len(pat) - 1:
            raise Unrecognised("decode: pattern")
        vars_ = split_top(pat[1:-1])
        args = macro_args(rhs, "map_decode")
        if len(args) != 2 or args[0] != "buffer" or not args[1].startswith("[") \
                or match_close(args[1], 0) != len(args[1]) - 1:
            raise Unrecognised("map_decode!(buffer, [..])")
        tys = split_top(args[1][1:-1])
    else:
        vars_ = [pat]
        dm = re.fullmatch(r"(.+?)\s*::\s*decode\s*\(\s*buffer\s*\)\s*\?", rhs)
        if not dm:
            raise Unrecognised("decode: T::decode(buffer)?")
        tys = [dm.group(1)]
    if len(vars_) != len(tys) or len(set(vars_)) != len(vars_) or not all(re.fullmatch(IDENT, v) for v in vars_):
        raise Unrecognised("decode: pattern and type list differ")
    res = split_top(ok_arg(st[1]))
    if len(res) != 1:
        raise Unrecognised("decode: Ok((.., rest))")
    tup = res[0]
    if not tup.startswith("(") or match_close(tup, 0) != len(tup) - 1:
        raise Unrecognised("decode: Ok((.., rest))")
    parts = split_top(tup[1:-1])
    if len(parts) != 2 or parts[1] != rest:
        raise Unrecognised("decode: Ok((.., rest))")
    ctor = parts[0]
    assigned = {}   # variable -> field
    lm = re.fullmatch(r"%s\s*\{(.*)\}" % ty, ctor, flags=re.S)
    cm = re.fullmatch(r"%s\s*::\s*(%s)\s*\((.*)\)" % (ty, IDENT), ctor, flags=re.S)
    if lm:
        seen = []
        for item in split_top(lm.group(1)):
            im = re.fullmatch(r"(%s)(?:\s*:\s*(%s))?" % (IDENT, IDENT), item)
            if not im:
                raise Unrecognised("struct literal item " + item)
            fld, var = im.group(1), im.group(2) or im.group(1)
            if var in assigned or fld in seen:
                raise Unrecognised("struct literal: twice")
            assigned[var] = fld
            seen.append(fld)
        if sorted(seen) != sorted(fields):
            raise Unrecognised("struct literal does not list the fields of the struct")
    elif cm:
        params = ctor_params(src_root, ty, f, cm.group(1))
        cargs = split_top(cm.group(2))
        if len(cargs) != len(params):
            raise Unrecognised("constructor call")
        for p, a in zip(params, cargs):
            am = re.fullmatch(r"(%s)(?:\s*\.\s*to_vec\s*\(\s*\))?" % IDENT, a)
            if not am or am.group(1) in assigned:
                raise Unrecognised("constructor argument " + a)
            if p not in fields:
                raise Unrecognised("no field " + p)
            assigned[am.group(1)] = p
    else:
        raise Unrecognised("decode: result " + ctor)
    if sorted(assigned) != sorted(vars_):
        raise Unrecognised("decode: values read and values used differ")
    return [fty(t) for t in tys], [assigned[v] for v in vars_]


def extract_one(src_root, ty, f):
    fields = dict(struct_fields(src_root, ty, f))
    block = block_after(read(os.path.join(src_root, ENCODING)), r"\bimpl\s+CompactEncoding\s+for\s+%s\s*\{" % ty)
    enc, fixed = parse_encode(fn_body(block, "encode"), fields)
    size = parse_size(fn_body(block, "encoded_size"), fields, fixed)
    dec_types, ctor = parse_decode(fn_body(block, "decode"), ty, fields, src_root, f)
    return dict(size=size, enc=enc, dec_types=dec_types, ctor=ctor)


def extract(src_root=REPO_SRC):
    res = []
    for (ty, f) in TYPES:
        try:
            d, why = extract_one(src_root, ty, f), None
        except Unrecognised as e:
            d, why = None, str(e)
        res.append((ty, f, d, why))
    return res


def coq_string(s):
    return '"%s"' % s.replace('"', '""')


def coq_fty(t):
    return t if isinstance(t, str) else "FOther %s" % coq_string(t[1])


def coq_fields(l):
    return "[%s]" % "; ".join("(%s, %s)" % (coq_string(n), coq_fty(t)) for (n, t) in l)


def coq_text(descs):
    lines = ["(* generated on every run by tools/srccodec.py from /repo/src/encoding.rs (+ common/peer.rs, common/node.rs): the wire",
             "   codecs as the source states them now (None = the impl is no longer in the macro form the translator recognises).",
             "   CodecTie.v ties them to the encoders of Codec.v. *)",
             "From HC Require Import CodecDesc.", "Local Open Scope string_scope.", ""]
    for (ty, f, d, why) in descs:
        if d is None:
            lines.append("Definition src_%s : option codec_desc := None.   (* %s: %s *)"
                         % (ty, f, re.sub(r"[^A-Za-z0-9_ .,:;!<>=+-]", "", why or "")[:120]))
        else:
            lines.append("Definition src_%s : option codec_desc := Some {|   (* %s *)" % (ty, f))
            lines.append("  cd_size := %s;" % coq_fields(d["size"]))
            lines.append("  cd_enc := %s;" % coq_fields(d["enc"]))
            lines.append("  cd_dec_types := [%s];" % "; ".join(coq_fty(t) for t in d["dec_types"]))
            lines.append("  cd_ctor := [%s] |}." % "; ".join(coq_string(n) for n in d["ctor"]))
    return "\n".join(lines) + "\n"


def regenerate(coq_dir, src_root=REPO_SRC):
    """writes SrcCodec.v (only when its content changes, to keep make incremental); returns the list for evidence"""
    descs = extract(src_root)
    txt = coq_text(descs)
    p = os.path.join(coq_dir, "SrcCodec.v")
    old = open(p).read() if os.path.exists(p) else None
    if old != txt:
        with open(p, "w") as fh:
            fh.write(txt)
    return [dict(type=ty, file=f, found=(d is not None),
                 fields=([n for (n, _) in d["enc"]] if d is not None else None)) for (ty, f, d, why) in descs]


if __name__ == "__main__":
    import sys
    print(coq_text(extract(sys.argv[1] if len(sys.argv) > 1 else REPO_SRC)), end="")

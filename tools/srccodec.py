"""srccodec — a (tiny) translator from the crate's source to Coq: the wire codecs of /repo/src/encoding.rs are almost
declarative (`sum_encoded_size!(self.a, ..)`, `map_encode!(buffer, self.a, ..)`, `map_decode!(buffer, [u64, ..])` + a struct
literal). On every run each `impl CompactEncoding for T` of the eight message types is parsed and written to coq/SrcCodec.v
as an `option codec_desc`:
  cd_size       the ordered (field, type) list summed by `encoded_size`
  cd_enc        the ordered (field, type) list written by `encode`
  cd_dec_types  the ordered type list read by `decode`
  cd_ctor       for each value read by `decode`, in order, the field of the result it is assigned to
The field types come from the struct definitions (common/peer.rs, common/node.rs). `None` when the impl (or the struct) is
no longer in the recognisable syntactic form — a refactor must not raise an alarm. A field whose form IS recognised but whose
type the model has no codec for (say u32, or as_array::<64>) is emitted as `FOther "<rust type>"`, which no proof of
coq/CodecTie.v can accept. CodecTie.v proves that the encoders/sizes of coq/Codec.v are the generic interpretation of these
descriptions: a reordered, added, dropped or retyped field breaks a proof obligation even when no generated message happens
to show it.

The same is done for the oplog codecs (property C06): `EntryTreeUpgrade`, `HeaderTree`, `HeaderHints` (pure macro form,
src/oplog/entry.rs, src/oplog/header.rs) as `codec_desc`; the imperative but regular `impl CompactEncoding for Entry` as a
`flagged_desc` (for encoded_size / encode / decode separately: the sections in order, each with the flag bit that announces
it — `flags |= N` in encode, `flags & N != 0` in decode); `BitfieldUpdate` (leading flag byte + two fields) and `Header`
(leading bytes `[1, 2 | 4]`, 32-byte key, then map_encode!/map_decode!) as a `codec_desc` plus a description of the leading
bytes. coq/OplogTie.v ties them to coq/Oplog.v."""
import os, re

REPO_SRC = "/repo/src"
ENCODING = "encoding.rs"

# (Rust type, file with the struct definition)
TYPES = [
    ("Node", "common/node.rs"),
    ("RequestBlock", "common/peer.rs"),
    ("RequestSeek", "common/peer.rs"),
    ("RequestUpgrade", "common/peer.rs"),
    ("DataBlock", "common/peer.rs"),
    ("DataHash", "common/peer.rs"),
    ("DataSeek", "common/peer.rs"),
    ("DataUpgrade", "common/peer.rs"),
]

IDENT = r"[A-Za-z_][A-Za-z0-9_]*"


class Unrecognised(Exception):
    pass


def strip_comments(src):
    src = re.sub(r"/\*.*?\*/", " ", src, flags=re.S)
    return "\n".join(l.split("//")[0] for l in src.split("\n"))


def read(path):
    try:
        return strip_comments(open(path).read())
    except OSError:
        raise Unrecognised("no file " + path)


def match_close(src, i):
    """src[i] is an opening bracket -> index of the matching closing one"""
    pairs = {"(": ")", "[": "]", "{": "}"}
    stack = []
    for j in range(i, len(src)):
        c = src[j]
        if c in pairs:
            stack.append(pairs[c])
        elif c in ")]}":
            if not stack or stack.pop() != c:
                raise Unrecognised("unbalanced brackets")
            if not stack:
                return j
    raise Unrecognised("unbalanced brackets")


def split_top(s, sep=","):
    """split at the separators that are not inside () [] {}; a trailing empty piece is dropped"""
    out, depth, cur = [], 0, ""
    for c in s:
        if c in "([{":
            depth += 1
        elif c in ")]}":
            depth -= 1
        if c == sep and depth == 0:
            out.append(cur.strip())
            cur = ""
        else:
            cur += c
    if cur.strip():
        out.append(cur.strip())
    return out


def norm(s):
    return re.sub(r"\s+", " ", s).strip()


def squeeze(s):
    return re.sub(r"\s+", "", s)


def block_after(src, header_re):
    """body (without the braces) of the first `{ .. }` that follows the unique match of header_re"""
    ms = list(re.finditer(header_re, src))
    if len(ms) != 1:
        raise Unrecognised("expected exactly one %s" % header_re)
    i = src.find("{", ms[0].end() - 1)
    if i < 0:
        raise Unrecognised("no body")
    return src[i + 1:match_close(src, i)]


def fn_body(block, name):
    ms = list(re.finditer(r"\bfn\s+%s\b" % name, block))
    if len(ms) != 1:
        raise Unrecognised("fn %s" % name)
    # the signatures at hand contain no braces: the first `{` opens the body
    i = block.find("{", ms[0].end())
    if i < 0:
        raise Unrecognised("fn %s has no body" % name)
    return block[i + 1:match_close(block, i)]


def statements(body):
    return [norm(x) for x in split_top(body, ";")]


def macro_args(expr, macro):
    """expr == `macro!( .. )` (or with [] / {}) -> the top-level comma separated arguments"""
    m = re.fullmatch(r"%s\s*!\s*([(\[{])(.*)[)\]}]" % macro, expr, flags=re.S)
    if not m:
        raise Unrecognised(macro)
    return split_top(m.group(2))


def ok_arg(expr):
    m = re.fullmatch(r"Ok\s*\((.*)\)", expr, flags=re.S)
    if not m or match_close(expr, expr.index("(")) != len(expr) - 1:
        raise Unrecognised("Ok(..)")
    return m.group(1).strip()


def struct_fields(src_root, ty, f):
    """ordered [(field, rust type)] of `struct ty { .. }`"""
    body = block_after(read(os.path.join(src_root, f)), r"\bstruct\s+%s\s*\{" % ty)
    out = []
    for item in split_top(body):
        item = re.sub(r"#\s*\[[^\]]*\]", " ", item)
        m = re.fullmatch(r"\s*(?:pub\s*(?:\([^)]*\))?\s*)?(%s)\s*:\s*(.+)" % IDENT, item, flags=re.S)
        if not m:
            raise Unrecognised("struct field " + item)
        out.append((m.group(1), squeeze(m.group(2))))
    return out


RUST_TY = {"u64": "FU64", "Vec<u8>": "FBytes", "Box<[u8]>": "FBytes", "Vec<Node>": "FNodes", "[u8;32]": "FHash32",
           "Vec<String>": "FStrings"}
# struct types with a CompactEncoding impl of their own that the model has a codec for (nested records)
RUST_REC = ["Manifest", "PartialKeypair", "HeaderTree", "HeaderHints", "EntryTreeUpgrade", "BitfieldUpdate"]


def fty(rust):
    r = squeeze(rust)
    if r in RUST_REC:
        return ("FRec", r)
    return RUST_TY.get(r, ("FOther", r))


def self_field(expr):
    m = re.fullmatch(r"self\s*\.\s*(%s)" % IDENT, expr)
    return m.group(1) if m else None


def parse_size(body, fields, fixed, lead=None):
    """-> [(field, fty)]; fixed: {array length: field} of the fields `encode` writes as fixed arrays. A constant summand
    stands for the field that `encode` writes as a fixed array of that length; constants that stand for no field are
    an alarm (FOther) unless lead is a list, to which they are appended (bytes written before the fields)"""
    st = statements(body)
    if len(st) != 1:
        raise Unrecognised("encoded_size: one expression expected")
    e = st[0]
    m = re.fullmatch(r"self\s*\.\s*(%s)\s*\.\s*encoded_size\s*\(\s*\)" % IDENT, e)
    if m:
        parts = [("names", [m.group(1)])]
    else:
        e = ok_arg(e)
        parts = []
        for part in split_top(e, "+"):
            if re.fullmatch(r"\d+", part):
                parts.append(("const", int(part)))
            else:
                names = []
                for a in macro_args(part, "sum_encoded_size"):
                    n = self_field(a)
                    if n is None:
                        raise Unrecognised("sum_encoded_size! argument " + a)
                    names.append(n)
                parts.append(("names", names))
        if [k for (k, _) in parts].count("names") != 1:
            raise Unrecognised("encoded_size: one sum_encoded_size! expected")
    out = []
    for (kind, v) in parts:
        if kind == "names":
            for n in v:
                if n not in fields:
                    raise Unrecognised("no field " + n)
                out.append((n, fty(fields[n])))
        elif v in fixed and fixed[v]:
            out.append((fixed[v].pop(0), fty("[u8;%d]" % v)))
        elif lead is not None:
            lead.append(v)
        else:
            out.append(("", ("FOther", "+ %d" % v)))
    return out


def parse_encode(body, fields, st=None, buf="buffer"):
    """-> ([(field, fty)], {array length: [fields written as a fixed array of that length]})"""
    st = statements(body) if st is None else st
    if not st:
        raise Unrecognised("encode: empty")
    m = re.fullmatch(r"self\s*\.\s*(%s)\s*\.\s*encode\s*\(\s*buffer\s*\)" % IDENT, st[-1])
    if m and len(st) == 1:
        n = m.group(1)
        if n not in fields:
            raise Unrecognised("no field " + n)
        return [(n, fty(fields[n]))], {}
    local = {}
    for s in st[:-1]:
        m = re.fullmatch(r"let (%s) = as_array\s*::\s*<\s*(\d+)\s*>\s*\(\s*&\s*self\s*\.\s*(%s)\s*\)\s*\?" % (IDENT, IDENT), s)
        if not m:
            raise Unrecognised("encode: statement " + s)
        local[m.group(1)] = (m.group(3), int(m.group(2)))
    args = macro_args(ok_arg(st[-1]), "map_encode")
    if not args or args[0] != buf:
        raise Unrecognised("map_encode!(buffer, ..)")
    out, fixed = [], {}
    for a in args[1:]:
        n = self_field(a)
        if n is not None:
            if n not in fields:
                raise Unrecognised("no field " + n)
            out.append((n, fty(fields[n])))
            am = re.fullmatch(r"\[u8;(\d+)\]", squeeze(fields[n]))
            if am:
                fixed.setdefault(int(am.group(1)), []).append(n)
        elif a in local:
            n, k = local[a]
            if n not in fields:
                raise Unrecognised("no field " + n)
            if squeeze(fields[n]) == "Vec<u8>":
                out.append((n, fty("[u8;%d]" % k)))
            else:
                out.append((n, ("FOther", "as_array::<%d> of %s" % (k, fields[n]))))
            fixed.setdefault(k, []).append(n)
        else:
            raise Unrecognised("map_encode! argument " + a)
    if set(local) - set(args[1:]):
        raise Unrecognised("encode: unused local")
    return out, fixed


def ctor_params(src_root, ty, f, fn):
    """`ty::fn(p1: T1, ..) -> Self { .. Self { p1, .. } }`: the parameters, each of which must initialise the field of its
    own name (shorthand) in the `Self { .. }` / `ty { .. }` literal of the body"""
    src = read(os.path.join(src_root, f))
    impls = [m for m in re.finditer(r"\bimpl\s+%s\s*\{" % ty, src)]
    for im in impls:
        block = src[im.end():match_close(src, im.end() - 1)]
        m = re.search(r"\bfn\s+%s\s*\(" % fn, block)
        if not m:
            continue
        close = match_close(block, m.end() - 1)
        params = []
        for p in split_top(block[m.end():close]):
            pm = re.fullmatch(r"(%s)\s*:\s*.+" % IDENT, p, flags=re.S)
            if not pm:
                raise Unrecognised("parameter " + p)
            params.append(pm.group(1))
        i = block.find("{", close)
        body = block[i + 1:match_close(block, i)]
        lits = [l for l in re.finditer(r"\b(?:Self|%s)\s*\{" % ty, body)]
        if len(lits) != 1:
            raise Unrecognised("constructor body")
        items = split_top(body[lits[0].end():match_close(body, lits[0].end() - 1)])
        for p in params:
            if p not in items:
                raise Unrecognised("parameter %s is not stored in the field of its name" % p)
        return params
    raise Unrecognised("no fn %s::%s" % (ty, fn))


def parse_decode(body, ty, fields, src_root, f, st=None, buf="buffer", pre=(), extra=None):
    """-> ([fty read, in order], [field each value read is assigned to, in order]).
    pre: (variable, rust type) pairs read before the map_decode! (Header's key); extra: {field: expression} that the
    struct literal may contain besides the values read (BitfieldUpdate's drop) — filled in by this function"""
    st = statements(body) if st is None else st
    if len(st) != 2:
        raise Unrecognised("decode: two statements expected")
    m = re.fullmatch(r"let \( ?(.*) ?, ?(%s) ?,? ?\) = (.*)" % IDENT, st[0])
    if not m:
        raise Unrecognised("decode: let")
    pat, rest, rhs = m.group(1).strip(), m.group(2), m.group(3).strip()
    if pat.startswith("("):
        if match_close(pat, 0) != len(pat) - 1:
            raise Unrecognised("decode: pattern")
        vars_ = split_top(pat[1:-1])
        args = macro_args(rhs, "map_decode")
        if len(args) != 2 or args[0] != buf or not args[1].startswith("[") \
                or match_close(args[1], 0) != len(args[1]) - 1:
            raise Unrecognised("map_decode!(buffer, [..])")
        tys = split_top(args[1][1:-1])
    else:
        vars_ = [pat]
        dm = re.fullmatch(r"(.+?)\s*::\s*decode\s*\(\s*%s\s*\)\s*\?" % buf, rhs)
        if not dm:
            raise Unrecognised("decode: T::decode(buffer)?")
        tys = [dm.group(1)]
    vars_ = [v for (v, _) in pre] + vars_
    tys = [t for (_, t) in pre] + tys
    if len(vars_) != len(tys) or len(set(vars_)) != len(vars_) or not all(re.fullmatch(IDENT, v) for v in vars_):
        raise Unrecognised("decode: pattern and type list differ")
    res = split_top(ok_arg(st[1]))
    if len(res) != 1:
        raise Unrecognised("decode: Ok((.., rest))")
    tup = res[0]
    if not tup.startswith("(") or match_close(tup, 0) != len(tup) - 1:
        raise Unrecognised("decode: Ok((.., rest))")
    parts = split_top(tup[1:-1])
    if len(parts) != 2 or parts[1] != rest:
        raise Unrecognised("decode: Ok((.., rest))")
    ctor = parts[0]
    assigned = {}   # variable -> field
    lm = re.fullmatch(r"(?:%s|Self)\s*\{(.*)\}" % ty, ctor, flags=re.S)
    cm = re.fullmatch(r"%s\s*::\s*(%s)\s*\((.*)\)" % (ty, IDENT), ctor, flags=re.S)
    if lm:
        seen = []
        for item in split_top(lm.group(1)):
            im = re.fullmatch(r"(%s)(?:\s*:\s*(%s))?" % (IDENT, IDENT), item)
            xm = re.fullmatch(r"(%s)\s*:\s*(.+)" % IDENT, item, flags=re.S)
            if not im and extra is not None and xm and xm.group(1) not in extra and xm.group(1) not in seen:
                extra[xm.group(1)] = norm(xm.group(2))
                seen.append(xm.group(1))
                continue
            if not im:
                raise Unrecognised("struct literal item " + item)
            fld, var = im.group(1), im.group(2) or im.group(1)
            if var in assigned or fld in seen:
                raise Unrecognised("struct literal: twice")
            assigned[var] = fld
            seen.append(fld)
        if sorted(seen) != sorted(fields):
            raise Unrecognised("struct literal does not list the fields of the struct")
    elif cm:
        params = ctor_params(src_root, ty, f, cm.group(1))
        cargs = split_top(cm.group(2))
        if len(cargs) != len(params):
            raise Unrecognised("constructor call")
        for p, a in zip(params, cargs):
            am = re.fullmatch(r"(%s)(?:\s*\.\s*to_vec\s*\(\s*\))?" % IDENT, a)
            if not am or am.group(1) in assigned:
                raise Unrecognised("constructor argument " + a)
            if p not in fields:
                raise Unrecognised("no field " + p)
            assigned[am.group(1)] = p
    else:
        raise Unrecognised("decode: result " + ctor)
    if sorted(assigned) != sorted(vars_):
        raise Unrecognised("decode: values read and values used differ")
    return [fty(t) for t in tys], [assigned[v] for v in vars_]


def impl_block(src_root, ty, impl_file):
    return block_after(read(os.path.join(src_root, impl_file)), r"\bimpl\s+CompactEncoding\s+for\s+%s\s*\{" % ty)


def extract_one(src_root, ty, f, impl_file=ENCODING):
    fields = dict(struct_fields(src_root, ty, f))
    block = impl_block(src_root, ty, impl_file)
    enc, fixed = parse_encode(fn_body(block, "encode"), fields)
    size = parse_size(fn_body(block, "encoded_size"), fields, fixed)
    dec_types, ctor = parse_decode(fn_body(block, "decode"), ty, fields, src_root, f)
    return dict(size=size, enc=enc, dec_types=dec_types, ctor=ctor)


# ----------------------------------------------------------------------------------------------
# oplog codecs (C06)
# ----------------------------------------------------------------------------------------------

# pure macro form: (Rust type, file with the impl, file with the struct)
OPLOG_TYPES = [
    ("EntryTreeUpgrade", "oplog/entry.rs", "oplog/entry.rs"),
    ("HeaderTree", "oplog/header.rs", "oplog/header.rs"),
    ("HeaderHints", "oplog/header.rs", "oplog/header.rs"),
]
ENTRY_RS = "oplog/entry.rs"
HEADER_RS = "oplog/header.rs"
BITFIELD_UPDATE_RS = "common/mod.rs"


def top_statements(body):
    """the statements of a block: `if .. { } [else ..{ }]` needs no `;`, everything else ends at a `;` outside brackets"""
    out, i, n = [], 0, len(body)
    while True:
        while i < n and (body[i].isspace() or body[i] == ";"):
            i += 1
        if i >= n:
            return out
        if re.match(r"if\b", body[i:]):
            j = i
            while True:
                k = body.find("{", j)
                if k < 0:
                    raise Unrecognised("if without block")
                c = match_close(body, k)
                m = re.match(r"\s*else\b", body[c + 1:])
                if not m:
                    break
                j = c + 1 + m.end()
            out.append(squeeze(body[i:c + 1]))
            i = c + 1
        else:
            depth, j = 0, i
            while j < n and not (body[j] == ";" and depth == 0):
                depth += body[j] in "([{"
                depth -= body[j] in ")]}"
                j += 1
            out.append(squeeze(body[i:j]))
            i = j + 1


def int_expr(e):
    """integer literal expression (|, <<, +, parentheses, 0x.., u8 suffix) -> int"""
    e = re.sub(r"(?<=[0-9a-fA-F])_?(u8|u16|u32|u64|usize)\b", "", e)
    if not re.fullmatch(r"[0-9a-fA-FxX|<+()\s]+", e):
        raise Unrecognised("integer expression " + e)
    try:
        v = eval(e, {"__builtins__": {}}, {})
    except Exception:
        raise Unrecognised("integer expression " + e)
    if not isinstance(v, int) or v < 0:
        raise Unrecognised("integer expression " + e)
    return v


def find_struct_file(src_root, ty, candidates):
    for f in candidates:
        try:
            if re.search(r"\bstruct\s+%s\s*\{" % ty, read(os.path.join(src_root, f))):
                return f
        except Unrecognised:
            pass
    raise Unrecognised("no struct " + ty)


def section_fty(rust):
    """type of an Entry section: Vec<..> is written when non-empty, Option<T> when Some"""
    r = squeeze(rust)
    m = re.fullmatch(r"Option<(.+)>", r)
    if m:
        return "opt", fty(m.group(1))
    if r.startswith("Vec<"):
        return "vec", fty(r)
    return "other", ("FOther", r)


def extract_entry(src_root):
    """impl CompactEncoding for Entry -> dict(size_lead, size=[(field, fty)], enc=[(field, bit, fty)], dec=[...])"""
    fields = dict(struct_fields(src_root, "Entry", ENTRY_RS))
    block = impl_block(src_root, "Entry", ENTRY_RS)

    def guard(st):
        """`if <guard of field F> {BODY}` -> (F, name under which BODY refers to the section, BODY statements)"""
        m = re.fullmatch(r"if!self\.(%s)\.is_empty\(\)\{(.*)\}" % IDENT, st)
        if m:
            fld, ref, kind = m.group(1), "self." + m.group(1), "vec"
        else:
            m = re.fullmatch(r"ifletSome\((%s)\)=&self\.(%s)\{(.*)\}" % (IDENT, IDENT), st)
            if not m:
                raise Unrecognised("Entry: statement " + st)
            fld, ref, kind = m.group(2), m.group(1), "opt"
        if fld not in fields:
            raise Unrecognised("no field " + fld)
        k, t = section_fty(fields[fld])
        if k != kind:
            raise Unrecognised("Entry: guard of %s does not fit its type" % fld)
        return fld, t, re.escape(ref), [x for x in m.group(m.lastindex).split(";") if x]

    # encoded_size
    st = top_statements(fn_body(block, "encoded_size"))
    m = re.fullmatch(r"letmut(%s)=(\d+)" % IDENT, st[0]) if len(st) >= 2 else None
    if not m or st[-1] != "Ok(%s)" % m.group(1):
        raise Unrecognised("Entry::encoded_size")
    out, size_lead, size = m.group(1), int(m.group(2)), []
    for x in st[1:-1]:
        fld, t, ref, body = guard(x)
        if len(body) != 1 or not re.fullmatch(r"%s\+=%s\.encoded_size\(\)\?" % (out, ref), body[0]):
            raise Unrecognised("Entry::encoded_size: " + x)
        size.append((fld, t))

    # encode
    st = top_statements(fn_body(block, "encode"))
    if len(st) < 4:
        raise Unrecognised("Entry::encode")
    m0 = re.fullmatch(r"let\((%s),mut(%s)\)=take_array_mut::<1>\(buffer\)\?" % (IDENT, IDENT), st[0])
    m1 = re.fullmatch(r"letmut(%s)=0(?:u8)?" % IDENT, st[1])
    if not m0 or not m1:
        raise Unrecognised("Entry::encode: prologue")
    fb, rest, fl = m0.group(1), m0.group(2), m1.group(1)
    if st[-2] != "%s[0]=%s" % (fb, fl) or st[-1] != "Ok(%s)" % rest:
        raise Unrecognised("Entry::encode: epilogue")
    enc = []
    for x in st[2:-2]:
        fld, t, ref, body = guard(x)
        bm = re.fullmatch(r"%s\|=(.+)" % fl, body[0]) if len(body) == 2 else None
        if not bm or not re.fullmatch(r"%s=%s\.encode\(%s\)\?" % (rest, ref, rest), body[1]):
            raise Unrecognised("Entry::encode: " + x)
        enc.append((fld, int_expr(bm.group(1)), t))

    # decode
    st = top_statements(fn_body(block, "decode"))
    m0 = re.fullmatch(r"let\(\[(%s)\],(%s)\)=take_array::<1>\(buffer\)\?" % (IDENT, IDENT), st[0]) if len(st) >= 2 else None
    if not m0:
        raise Unrecognised("Entry::decode: prologue")
    fl, rest = m0.group(1), m0.group(2)
    dec_vars = []
    for x in st[1:-1]:
        m = re.fullmatch(r"let\((%s),%s\)=if%s&(\w+)!=0\{(.*)\}else\{\(Default::default\(\),%s\)\}"
                         % (IDENT, rest, fl, rest), x)
        if not m:
            raise Unrecognised("Entry::decode: " + x)
        var, bit, body = m.group(1), int_expr(m.group(2)), m.group(3)
        bm = re.fullmatch(r"let\((%s),%s\)=(.+)::decode\(%s\)\?;\(Some\(\1\),%s\)" % (IDENT, rest, rest, rest), body)
        if bm:
            t = fty(bm.group(2))
        else:
            bm = re.fullmatch(r"<(.+)>::decode\(%s\)\?" % rest, body) or re.fullmatch(r"(%s)::decode\(%s\)\?" % (IDENT, rest), body)
            if not bm:
                raise Unrecognised("Entry::decode: " + body)
            t = fty(bm.group(1))
            if t[0] == "FRec":
                t = ("FOther", "%s (not optional)" % bm.group(1))
        dec_vars.append((var, bit, t))
    # result: Ok((Self { .. }, rest))
    res = ok_arg(st[-1])
    rm = re.fullmatch(r"\((?:Entry|Self)\{(.*)\},%s,?\)" % rest, res)
    if not rm:
        raise Unrecognised("Entry::decode: result")
    assigned, seen = {}, []
    for item in split_top(rm.group(1)):
        im = re.fullmatch(r"(%s)(?::(%s))?" % (IDENT, IDENT), item)
        if not im:
            raise Unrecognised("Entry::decode: item " + item)
        fld, var = im.group(1), im.group(2) or im.group(1)
        if var in assigned or fld in seen:
            raise Unrecognised("struct literal: twice")
        assigned[var] = fld
        seen.append(fld)
    if sorted(seen) != sorted(fields) or sorted(assigned) != sorted(v for (v, _, _) in dec_vars):
        raise Unrecognised("Entry::decode: values read and fields differ")
    dec = [(assigned[v], bit, t) for (v, bit, t) in dec_vars]
    return dict(size_lead=size_lead, size=size, enc=enc, dec=dec)


def bit_test(expr, var):
    """`var & M == M` or `var & M != 0` -> M"""
    e = squeeze(expr)
    m = re.fullmatch(r"%s&(\w+)==(\w+)" % var, e)
    if m and int_expr(m.group(1)) == int_expr(m.group(2)):
        return int_expr(m.group(1))
    m = re.fullmatch(r"%s&(\w+)!=0" % var, e)
    if m:
        return int_expr(m.group(1))
    raise Unrecognised("bit test " + expr)


def extract_bitfield_update(src_root):
    """-> (codec_desc of the fields after the flag byte, dict(size=K, enc=[(field, value when true)], dec=[(field, mask)]))"""
    sf = find_struct_file(src_root, "BitfieldUpdate", ["common/mod.rs", "common/peer.rs", "bitfield/dynamic.rs", "oplog/entry.rs"])
    fields = dict(struct_fields(src_root, "BitfieldUpdate", sf))
    block = impl_block(src_root, "BitfieldUpdate", ENTRY_RS)
    # encode: let D = if self.F { A } else { 0 }; let R = write_array(&[D], buffer)?; Ok(map_encode!(R, ..))
    st = top_statements(fn_body(block, "encode"))
    if len(st) != 3:
        raise Unrecognised("BitfieldUpdate::encode")
    m0 = re.fullmatch(r"let(%s)=ifself\.(%s)\{(\w+)\}else\{0\}" % (IDENT, IDENT), st[0])
    m1 = re.fullmatch(r"let(%s)=write_array\(&\[(%s)\],buffer\)\?" % (IDENT, IDENT), st[1])
    if not m0 or not m1 or m1.group(2) != m0.group(1) or squeeze(fields.get(m0.group(2), "")) != "bool":
        raise Unrecognised("BitfieldUpdate::encode: flag byte")
    flag_field, flag_val, rest = m0.group(2), int_expr(m0.group(3)), m1.group(1)
    plain = {k: v for (k, v) in fields.items() if k != flag_field}
    enc, fixed = parse_encode(None, plain, st=[norm(fn_last_statement(fn_body(block, "encode")))], buf=rest)
    lead = []
    size = parse_size(fn_body(block, "encoded_size"), plain, fixed, lead=lead)
    # decode: let ([FL], R) = take_array::<1>(buffer)?; let ((..), R2) = map_decode!(R, [..]); Ok((T { F: FL & 1 == 1, .. }, R2))
    sts = statements(fn_body(block, "decode"))
    m2 = re.fullmatch(r"let\(\[(%s)\],(%s)\)=take_array::<1>\(buffer\)\?" % (IDENT, IDENT), squeeze(sts[0])) if len(sts) == 3 else None
    if not m2:
        raise Unrecognised("BitfieldUpdate::decode")
    extra = {}
    dec_types, ctor = parse_decode(None, "BitfieldUpdate", fields, src_root, sf, st=sts[1:], buf=m2.group(2), extra=extra)
    if list(extra) != [flag_field]:
        raise Unrecognised("BitfieldUpdate::decode: flag field")
    mask = bit_test(extra[flag_field], m2.group(1))
    return (dict(size=size, enc=enc, dec_types=dec_types, ctor=ctor),
            dict(size=sum(lead), enc=[(flag_field, flag_val)], dec=[(flag_field, mask)]))


def fn_last_statement(body):
    parts = split_top(body, ";")
    if not parts:
        raise Unrecognised("empty body")
    return parts[-1]


def extract_header(src_root):
    """-> (codec_desc of key + the map_encode! fields, dict(bytes=[..], dec_skip=n, size=n))"""
    fields = dict(struct_fields(src_root, "Header", HEADER_RS))
    block = impl_block(src_root, "Header", HEADER_RS)
    st = statements(fn_body(block, "encode"))
    m = re.fullmatch(r"let(%s)=write_array\(&\[(.*)\],buffer\)\?" % IDENT, squeeze(st[0])) if len(st) == 2 else None
    if not m:
        raise Unrecognised("Header::encode")
    lead_bytes = [int_expr(x) for x in split_top(m.group(2))]
    enc, fixed = parse_encode(None, fields, st=st[1:], buf=m.group(1))
    lead = []
    size = parse_size(fn_body(block, "encoded_size"), fields, fixed, lead=lead)
    st = statements(fn_body(block, "decode"))
    if len(st) != 4:
        raise Unrecognised("Header::decode")
    m0 = re.fullmatch(r"let\(\[(.*)\],(%s)\)=take_array::<(\d+)>\(buffer\)\?" % IDENT, squeeze(st[0]))
    if not m0 or len(split_top(m0.group(1))) != int(m0.group(3)):
        raise Unrecognised("Header::decode: leading bytes")
    # the leading bytes are read and ignored
    later = " ".join(st[1:])
    for v in split_top(m0.group(1)):
        if not re.fullmatch(IDENT, v) or re.search(r"\b%s\b" % v, later):
            raise Unrecognised("Header::decode: leading bytes are used")
    m1 = re.fullmatch(r"let\((%s),(%s)\)=take_array::<(\d+)>\(%s\)\?" % (IDENT, IDENT, m0.group(2)), squeeze(st[1]))
    if not m1:
        raise Unrecognised("Header::decode: key")
    dec_types, ctor = parse_decode(None, "Header", fields, src_root, HEADER_RS, st=st[2:], buf=m1.group(2),
                                   pre=[(m1.group(1), "[u8;%s]" % m1.group(3))])
    return (dict(size=size, enc=enc, dec_types=dec_types, ctor=ctor),
            dict(bytes=lead_bytes, dec_skip=int(m0.group(3)), size=sum(lead), size_terms=len(lead)))


def extract_oplog(src_root=REPO_SRC):
    """-> [(coq name, kind, source file, value or None, reason)]"""
    res = []

    def attempt(names, f, fn):
        try:
            vals, why = fn(), None
        except Unrecognised as e:
            vals, why = None, str(e)
        except (IndexError, KeyError) as e:
            vals, why = None, "unexpected shape"
        for i, (name, kind) in enumerate(names):
            res.append((name, kind, f, (vals[i] if vals is not None else None), why))

    for (ty, impl_file, sf) in OPLOG_TYPES:
        attempt([("src_" + ty, "codec")], impl_file, lambda: (extract_one(src_root, ty, sf, impl_file),))
    attempt([("src_Entry", "flagged")], ENTRY_RS, lambda: (extract_entry(src_root),))
    attempt([("src_BitfieldUpdate", "codec"), ("src_BitfieldUpdate_flag", "flagbyte")], ENTRY_RS,
            lambda: extract_bitfield_update(src_root))
    attempt([("src_Header", "codec"), ("src_Header_lead", "lead")], HEADER_RS, lambda: extract_header(src_root))
    return res


def extract(src_root=REPO_SRC):
    res = []
    for (ty, f) in TYPES:
        try:
            d, why = extract_one(src_root, ty, f), None
        except Unrecognised as e:
            d, why = None, str(e)
        res.append((ty, f, d, why))
    return res


def coq_string(s):
    return '"%s"' % s.replace('"', '""')


def coq_fty(t):
    return t if isinstance(t, str) else "%s %s" % (t[0], coq_string(t[1]))


def coq_fields(l):
    return "[%s]" % "; ".join("(%s, %s)" % (coq_string(n), coq_fty(t)) for (n, t) in l)


def coq_sections(l):
    return "[%s]" % "; ".join("(%s, %d%%N, %s)" % (coq_string(n), b, coq_fty(t)) for (n, b, t) in l)


def coq_bits(l):
    return "[%s]" % "; ".join("(%s, %d%%N)" % (coq_string(n), b) for (n, b) in l)


def why_text(why):
    return re.sub(r"[^A-Za-z0-9_ .,:;!<>=+-]", "", why or "")[:120]


def coq_codec(name, f, d, why):
    if d is None:
        return ["Definition %s : option codec_desc := None.   (* %s: %s *)" % (name, f, why_text(why))]
    return ["Definition %s : option codec_desc := Some {|   (* %s *)" % (name, f),
            "  cd_size := %s;" % coq_fields(d["size"]),
            "  cd_enc := %s;" % coq_fields(d["enc"]),
            "  cd_dec_types := [%s];" % "; ".join(coq_fty(t) for t in d["dec_types"]),
            "  cd_ctor := [%s] |}." % "; ".join(coq_string(n) for n in d["ctor"])]


COQ_KIND = {"flagged": "flagged_desc", "flagbyte": "flagbyte_desc", "lead": "lead_desc"}


def coq_oplog(name, kind, f, d, why):
    if kind == "codec":
        return coq_codec(name, f, d, why)
    if d is None:
        return ["Definition %s : option %s := None.   (* %s: %s *)" % (name, COQ_KIND[kind], f, why_text(why))]
    head = "Definition %s : option %s := Some {|   (* %s *)" % (name, COQ_KIND[kind], f)
    if kind == "flagged":
        return [head, "  fd_size_lead := %d%%N;" % d["size_lead"], "  fd_size := %s;" % coq_fields(d["size"]),
                "  fd_enc := %s;" % coq_sections(d["enc"]), "  fd_dec := %s |}." % coq_sections(d["dec"])]
    if kind == "flagbyte":
        return [head, "  fb_size := %d%%N;" % d["size"], "  fb_enc := %s;" % coq_bits(d["enc"]),
                "  fb_dec := %s |}." % coq_bits(d["dec"])]
    return [head, "  hl_bytes := [%s];" % "; ".join("%d%%N" % b for b in d["bytes"]),
            "  hl_dec_skip := %d%%N;" % d["dec_skip"], "  hl_size := %d%%N |}." % d["size"]]


def coq_text(descs, oplog=()):
    lines = ["(* generated on every run by tools/srccodec.py from /repo/src/encoding.rs (+ common/peer.rs, common/node.rs): the wire",
             "   codecs as the source states them now (None = the impl is no longer in the macro form the translator recognises).",
             "   CodecTie.v ties them to the encoders of Codec.v. *)",
             "From HC Require Import CodecDesc.", "Local Open Scope string_scope.", ""]
    for (ty, f, d, why) in descs:
        lines += coq_codec("src_" + ty, f, d, why)
    lines += ["", "(* the oplog codecs of /repo/src/oplog/entry.rs and /repo/src/oplog/header.rs (property C06); OplogTie.v ties them to",
              "   Oplog.v. Entry: for encoded_size / encode / decode separately, the sections in source order, each with the flag",
              "   bit that announces it (encode: `flags |= N`; decode: `flags & N != 0`). *)"]
    for (name, kind, f, d, why) in oplog:
        lines += coq_oplog(name, kind, f, d, why)
    return "\n".join(lines) + "\n"


def regenerate(coq_dir, src_root=REPO_SRC):
    """writes SrcCodec.v (only when its content changes, to keep make incremental); returns the list for evidence"""
    descs = extract(src_root)
    oplog = extract_oplog(src_root)
    txt = coq_text(descs, oplog)
    p = os.path.join(coq_dir, "SrcCodec.v")
    old = open(p).read() if os.path.exists(p) else None
    if old != txt:
        with open(p, "w") as fh:
            fh.write(txt)
    return [dict(type=ty, file=f, found=(d is not None), group="wire",
                 fields=([n for (n, _) in d["enc"]] if d is not None else None)) for (ty, f, d, why) in descs] + \
           [dict(type=name[4:], file=f, found=(d is not None), group="oplog", kind=kind,
                 fields=([x[0] for x in d["enc"]] if d is not None and "enc" in d else None))
            for (name, kind, f, d, why) in oplog]


if __name__ == "__main__":
    import sys
    root = sys.argv[1] if len(sys.argv) > 1 else REPO_SRC
    print(coq_text(extract(root), extract_oplog(root)), end="")

"""C04 — forged or altered proofs never change what a replica believes.
   C09 shares the generators (see c09.py)."""
from repl import *


def le64(n):
    return n.to_bytes(8, "little")


def leaf_hash(data):
    return hashlib.blake2b(b"\x00" + le64(len(data)) + data, digest_size=32).digest()


def parent_hash(ll, lh, rl, rh):
    return hashlib.blake2b(b"\x01" + le64(ll + rl) + lh + rh, digest_size=32).digest()


def clone_replica(w, name="X"):
    """fork the replica's disk at its current journal position and open it on both sides"""
    p = w.p
    n, _ = parse_journal(p.impl.cmd("journal RD 0"))
    p.raw("fork %sD RD %d" % (name, n))
    p.core_disk[name] = name + "D"
    p.jpos[name + "D"] = n
    ia, ma = p.do("open %s %sD" % (name, name))
    return ia


def observe_core(p, core, n):
    ia, _ = p.do("info %s" % core)
    obs = [ia]
    for i in range(min(n, 40)):
        a, _ = p.do("has %s %d" % (core, i)); b, _ = p.do("get %s %d" % (core, i))
        obs += [a, b]
    return obs


def substituted_block(pr, r):
    """replace the block value and recompute every parent hash consistently along the block section"""
    q = copy.deepcopy(pr)
    newv = bytes(r.randrange(256) for _ in range(max(1, len(unhex(pr["block"]["value"])))))
    if hexb(newv) == pr["block"]["value"]:
        newv = newv + b"\x01"
    q["block"]["value"] = hexb(newv)
    return q   # the verifier recomputes the chain itself from the value; nodes stay as they are


def forged_variants(w, pr, r, signed):
    """systematic forgeries beyond single-field alterations"""
    out = []
    if pr["block"] is not None:
        out.append(("substituted-block", substituted_block(pr, r), False))
    if pr["upgrade"] is not None:
        q = copy.deepcopy(pr)
        sig = w.p.impl.cmd("prim sign alt " + "00" * 32)   # any signature by another key
        # sign the right message with the wrong key: obtain via an alt writer is costly; use the
        # signable of this proof is unknown here, so use a random-message signature and a stale one
        q["upgrade"]["signature"] = sig.split(" ")[1]
        out.append(("signature-other-key", q, False))
        if signed.get("stale_sig") and signed["stale_sig"] != pr["upgrade"]["signature"]:
            q = copy.deepcopy(pr); q["upgrade"]["signature"] = signed["stale_sig"]
            out.append(("signature-other-length", q, False))
    return out


def planted_variants(w, pr, r):
    """two-step forgeries: the honest proof with a SURPLUS node for a block the replica does not hold — the leaf node of index j
    carrying the leaf hash of a forged value — smuggled into each place where a node list can be extended (an added seek section,
    the hash / block / upgrade / additional node lists); afterwards a bare block proof {index j, forged value, no nodes}, which is
    accepted exactly if the surplus node was stored unauthenticated. Returns (label, altered proof, (j, forged value hex))."""
    out = []
    cand = [j for j in range(w.wspec.length) if j not in w.rheld and (pr["block"] is None or pr["block"]["index"] != j)]
    if not cand:
        return out
    j = r.choice(cand)
    forged = b"FORGED" + bytes([65 + j % 26])
    node = [2 * j, len(forged), leaf_hash(forged).hex()]
    if pr["seek"] is None:
        q = copy.deepcopy(pr); q["seek"] = dict(bytes=r.choice([0, 1, 7]), nodes=[list(node)])
        out.append(("plant:seek-section", q, (j, hexb(forged))))
    for sec in ("block", "hash", "seek", "upgrade"):
        if pr[sec] is None:
            continue
        for ln in ["nodes"] + (["additional"] if sec == "upgrade" else []):
            q = copy.deepcopy(pr); q[sec][ln].append(list(node))
            out.append(("plant:%s.%s-append" % (sec, ln), q, (j, hexb(forged))))
            q = copy.deepcopy(pr); q[sec][ln].insert(0, list(node))
            out.append(("plant:%s.%s-prepend" % (sec, ln), q, (j, hexb(forged))))
    return out


def grafted_variants(w, pr, r):
    """a section of ANOTHER proof grafted onto an honest one (the verifier authenticates ONE of the block / hash sections of a proof;
    the core stores the block section's value): (a) a block section whose value is forged next to the honest hash section of a
    node the replica can verify; (b) an honest hash-section proof with a forged block section for a block the replica does not hold.
    Both carry block bytes that differ from the writer's and must be refused."""
    out = []
    if pr["block"] is not None and pr["hash"] is None:
        req = w.honest_request(r, kinds=["hash"])
        if req and req[0].startswith("hash"):
            ia, _ = w.prove(**req[1])
            if ia.startswith("ok ") and ia != "ok none":
                hp = parse_proof(ia[3:])
                if hp["hash"] is not None:
                    q = substituted_block(pr, r)
                    q["hash"] = copy.deepcopy(hp["hash"])
                    if q["upgrade"] is None and hp["upgrade"] is not None:
                        q["upgrade"] = copy.deepcopy(hp["upgrade"])
                    out.append(("graft:hash-section+substituted-block", q, False))
    if pr["hash"] is not None and pr["block"] is None:
        top = w.wspec.length if pr["upgrade"] is not None else w.rlen
        cand = [j for j in range(top) if j not in w.rheld]
        if cand:
            j = r.choice(cand)
            q = copy.deepcopy(pr)
            q["block"] = dict(index=j, value=hexb(b"FORGED" + bytes([65 + j % 26])), nodes=[])
            out.append(("graft:forged-block-section+hash", q, False))
    return out


def run_world(pair, r, res, tier, crash_only=False, kinds=None):
    """returns list of violation dicts"""
    w = build_world(pair, r)
    found = []
    signed = dict(lengths={(0, 0)}, stale_sig=None)
    signed["lengths"].add((w.wspec.length, w.wspec.byte_length))
    try:
        # bring the replica to a non-trivial state by honest replication
        for _ in range(r.choice([0, 1, 2, 4])):
            req = w.honest_request(r)
            if not req:
                continue
            ia, _ = w.prove(**req[1])
            if ia.startswith("ok ") and ia != "ok none":
                pr = parse_proof(ia[3:])
                if pr["upgrade"] is not None:
                    signed["stale_sig"] = pr["upgrade"]["signature"]
                aa, _ = w.apply(ia[3:])
                if aa == "ok 1":
                    w.note_applied(pr)
        if r.random() < 0.5:
            w.w_append([rnd_block(r) for _ in range(r.choice([1, 2, 3]))])
            signed["lengths"].add((w.wspec.length, w.wspec.byte_length))
        # all signed (length, byte_length) pairs of this writer: prefix sums
        signed["lengths"] = set((k, sum(len(b) for b in w.wspec.blocks[:k])) for k in range(w.wspec.length + 1))
        for _ in range(2 if tier == "quick" else 4):
            req = w.honest_request(r, kinds=kinds)
            if not req:
                continue
            ia, _ = w.prove(**req[1])
            if not ia.startswith("ok ") or ia == "ok none":
                continue
            pr = parse_proof(ia[3:])
            alts = alterations(pr, r, limit=28 if tier == "quick" else None) + forged_variants(w, pr, r, signed)
            plants = dict((lb, (q, info)) for lb, q, info in planted_variants(w, pr, r))
            alts += [(lb, q, False) for lb, (q, info) in plants.items()]
            alts += grafted_variants(w, pr, r)
            for label, q, size_only in alts:
                res.count("alt:" + label.split("[")[0].split(".")[-1])
                if clone_replica(w) != "ok":
                    found.append(dict(key="clone", what="cannot reopen a copy of the replica", replay=dict(world=w.log)))
                    return found
                n = max(w.wspec.length, w.rlen) + 2
                before = observe_core(pair, "X", n)
                files_before = pair.impl.cmd("files XD")
                qt = proof_text(q)
                aa, ma = pair.do("apply X " + qt)
                res.count("alt-result:" + ("accepted" if aa == "ok 1" else "crash" if klass(aa) == "crash" else "refused"))
                rep = dict(world=w.log, honest_request=req[1], alteration=label, altered_proof=qt[:2000], answer=aa[:200])
                if klass(aa) == "crash":
                    found.append(dict(key="apply:crash", what="altered proof (%s) -> %s" % (label, aa[:160]), replay=rep))
                    continue
                if label in plants and not crash_only:
                    # second step of the forgery: the bare block proof for the planted leaf
                    j, fv = plants[label][1]
                    bare = dict(fork=pr["fork"], block=dict(index=j, value=fv, nodes=[]), hash=None, seek=None, upgrade=None)
                    ab, _ = pair.do("apply X " + proof_text(bare))
                    gb, _ = pair.do("get X %d" % j)
                    res.count("plant-then-forge:" + ("accepted" if ab == "ok 1" else "refused"))
                    if ab == "ok 1" or gb == "ok some " + fv:
                        rep2 = dict(rep, second_proof=proof_text(bare), second_answer=ab, get_after=gb[:80])
                        found.append(dict(key="accepted:forged", what="two-step forgery: the honest proof with a surplus node for block %d (%s) answered %s, "
                                          "then the bare block proof with a forged value answered %s; get(%d) = %s, the writer's block is %s" %
                                          (j, label, aa[:30], ab, j, gb[:60], hexb(w.wspec.blocks[j])[:40]), replay=rep2))
                        continue
                if crash_only:
                    # C09: the core must still be usable — also at its next checkpoint (what an accepted proof put into memory is
                    # written to the tree store then), which make_read_only forces now
                    ib, _ = pair.do("info X")
                    if not ib.startswith("ok "):
                        found.append(dict(key="apply:unusable", what="core unusable after altered proof (%s): %s" % (label, ib), replay=rep))
                        continue
                    ic, _ = pair.do("readonly X")
                    if klass(ic) == "crash":
                        found.append(dict(key="apply:unusable-checkpoint", what="after the altered proof (%s, answered %s) the next checkpoint of the "
                                          "core (make_read_only) -> %s" % (label, aa[:40], ic[:160]), replay=rep))
                    continue
                if aa != "ok 1":
                    after = observe_core(pair, "X", n)
                    files_after = pair.impl.cmd("files XD")
                    # a node hash of another length passes the hash chain only as a 31 + 33 byte sibling pair and is then refused
                    # by the encoder of the oplog entry, i.e. after the (verified) block value has been written to the data store:
                    # the property speaks of observations, so for these the files are not compared
                    if "hash-shift" in label or "hash-len" in label:
                        files_after = files_before
                    if after != before or files_after != files_before:
                        found.append(dict(key="refused:changed", what="refused proof (%s, %s) changed the replica: %s -> %s" %
                                          (label, aa, before[0], after[0]), replay=rep))
                else:
                    if size_only:
                        res.count("accepted-unauthenticated-size")
                        continue
                    # the property names the alterations that MUST be refused: block bytes, authenticated node hashes, the
                    # signature (altered, by another key, or a genuine one for another length), fork (a hash flip in a node
                    # the verifier never reads — a surplus node — is not authenticated and is left to the state oracle below)
                    must_refuse = (label in ("substituted-block", "signature-other-key", "signature-other-length", "fork+1")
                                   or label.startswith("block.value") or label.startswith("upgrade.signature")
                                   or label.startswith("graft:"))
                    if must_refuse:
                        found.append(dict(key="accepted:forged", what="altered proof (%s) was ACCEPTED (the property requires it to be refused); "
                                          "replica now reports %s" % (label, pair.impl.cmd("info X")), replay=rep))
                        continue
                    # accepted: everything the replica now believes must be the writer's
                    ib, _ = pair.do("info X")
                    t = ib.split(" ")
                    if t[4] != "0":
                        found.append(dict(key="accepted:fork", what="altered proof (%s) accepted; replica now reports fork %s which the writer never signed" % (label, t[4]), replay=rep))
                        continue
                    if (int(t[1]), int(t[2])) not in signed["lengths"]:
                        found.append(dict(key="accepted:length", what="altered proof (%s) accepted; replica now reports length/byte length %s %s which the writer never signed" % (label, t[1], t[2]), replay=rep))
                        continue
                    for i in range(min(n, 60)):
                        b, _ = pair.do("get X %d" % i)
                        if b.startswith("ok some"):
                            if i >= w.wspec.length or b != "ok some " + hexb(w.wspec.blocks[i]):
                                found.append(dict(key="accepted:block", what="altered proof (%s) accepted; replica block %d = %s differs from the writer's" % (label, i, b[:60]), replay=rep))
                                break
                        elif klass(b) == "crash" or b.startswith("err"):
                            a, _ = pair.do("has X %d" % i)
                            if a == "ok 1":
                                found.append(dict(key="accepted:unreadable", what="altered proof (%s) accepted; block %d is held but get answers %s" % (label, i, b[:80]), replay=rep))
                                break
                if len(found) >= 3:
                    return found
    except Violation as v:
        found.append(dict(key=v.key, what=v.what, replay=dict(world=w.log)))
    return found


def main(tier, seed, prop="C04", crash_only=False):
    res = Result(prop, tier, seed)
    res.gate = coq_gate(prop + ".v", clean=(tier == "thorough"))
    build_harness(); build_model()
    r = random.Random(seed)
    pair = Pair()
    try:
        n = 12 if tier == "quick" else 300
        for k in range(n):
            vs = run_world(pair, r, res, tier, crash_only=crash_only)
            res.add_case(("world", k), True)
            res.violations.extend(vs)
            res.disagreements.extend(pair.disagreements[:2]); pair.disagreements = []
            if len(res.violations) >= 4:
                break
        res.extra["commands_compared"] = pair.ncmp
    finally:
        pair.close()
    return res.finish(
        "theorems of coq/props/%s.v over the model's verifier; every single-field alteration of honest proofs plus "
        "systematic forgeries are applied to copies of reachable replica states on implementation and model; oracle: "
        "refusal leaves observations and all four files unchanged, acceptance leaves only writer data" % prop,
        "seeded random replication worlds x alteration set; each altered proof is a case "
        "(coverage.distribution alt-result:*)")


if __name__ == "__main__":
    sys.exit(main(sys.argv[1], seed_from_env()))

"""srchash — source-derived HASH LAYOUTS of /repo/src/crypto/hash.rs: for the v10 functions the crate actually calls (Hash::data,
Hash::parent, Hash::tree — src/tree/*.rs — and signable_tree) the ORDERED sequence of byte strings fed to the hasher
(`hasher.update(X)`) or written by `to_encoded_bytes!(..)`, each argument classified symbolically:

  HConst name bytes   a byte-array constant of the file (LEAF_TYPE, PARENT_TYPE, ROOT_TYPE, TREE) with its bytes
  HLe64 e             `e.as_fixed_width()` of a u64 expression inside to_encoded_bytes! (directly, through the `let size = ..;` it
                      is bound to, or through `&buffer[..8]` / `&buffer[8..]` of a buffer of several 8-byte fields)
  HBe64 e             `u64_as_be(e)` (the legacy big-endian helper)
  HRaw x              the WHOLE of a `&[u8]` parameter x (a sub-slice `&data[..k]` is not this: it becomes HOther)
  HHash x             `x.hash()` of a node
  HHash32 x           `as_array::<32>(x)?`
  HOther text         anything else: the description is still emitted and cannot be proved equal to the model (alarm)

for Hash::parent also the ordering `let (node1, node2) = if left.index <= right.index { (left, right) } else { (right, left) };`, for
Hash::tree the updates before / inside / after the `for node in roots` loop. Written to coq/SrcHash.v over the AST of coq/HashDesc.v
(None = function not found, no hasher / macro of the recognisable form, the hasher handed to other code ...: no alarm); coq/HashTie.v
proves that leaf_preimage, parent_preimage, tree_preimage and signable of Crypto.v ARE the interpretation of these descriptions.

That an expression is a u64 (so that `.as_fixed_width()` writes 8 bytes) is established syntactically: an outermost `as u64`, a
parameter of type u64, `x.index` / `x.length` with `struct Node { index: u64, length: u64 }`, `x.index()` / `x.len()` with
`fn index(&self) -> u64` / `fn len(&self) -> u64` in src/common/node.rs, sums of those; otherwise the item is HOther.
Also reported (evidence only): whether the legacy big-endian functions from_leaf / from_hashes / from_roots are dead outside tests."""
import os, re
import srcconsts
from srcfns import (tokenize, match_close, split_statements, text_of, Parser, Unsupported, find_top, pure, subst, coq_of, show,
                    free_vars)

REPO_SRC = "/repo/src"
HASH_RS = "crypto/hash.rs"


# ------------------------------------------------------------------------------------------------------------------
# locating functions
# ------------------------------------------------------------------------------------------------------------------

def split_top(toks, sep=","):
    parts, depth, cur = [], 0, []
    for tok in toks:
        if tok[0] == "p" and tok[1] in ("(", "[", "{"):
            depth += 1
        elif tok[0] == "p" and tok[1] in (")", "]", "}"):
            depth -= 1
        if tok == ("p", sep) and depth == 0:
            parts.append(cur); cur = []
        else:
            cur.append(tok)
    if cur:
        parts.append(cur)
    return parts


def fn_raw(toks, name):
    """-> ([(parameter name, type text)], body tokens) of the first `fn name`, or None"""
    for i in range(len(toks) - 2):
        if toks[i] == ("id", "fn") and toks[i + 1] == ("id", name):
            j = i + 2
            while j < len(toks) and toks[j] != ("p", "("):
                j += 1
            if j >= len(toks):
                return None
            close = match_close(toks, j)
            params = []
            for p in split_top(toks[j + 1:close]):
                c = find_top(p, {":"})
                q = [x for x in p[:c if c >= 0 else len(p)] if x not in (("p", "&"), ("id", "mut"))]
                if len(q) == 1 and q[0][0] == "id":
                    params.append((q[0][1], text_of(p[c + 1:]) if c >= 0 else ""))
            k = close
            while k < len(toks) and toks[k] != ("p", "{"):
                if toks[k] == ("p", ";"):
                    return None
                k += 1
            if k >= len(toks):
                return None
            return params, list(toks[k + 1:match_close(toks, k)])
    return None


def impl_block(toks, name):
    """tokens inside the first inherent `impl name { .. }`"""
    for i in range(len(toks) - 2):
        if toks[i] == ("id", "impl") and toks[i + 1] == ("id", name) and toks[i + 2] == ("p", "{"):
            return list(toks[i + 3:match_close(toks, i + 2)])
    return None


def without_tests(toks):
    """drops `#[cfg(test)] mod .. { .. }`"""
    out, i = [], 0
    while i < len(toks):
        if text_of(toks[i:i + 7]) == "# [ cfg ( test ) ]":
            j = i + 7
            while j < len(toks) and toks[j] != ("p", "{") and toks[j] != ("p", ";"):
                j += 1
            if j < len(toks) and toks[j] == ("p", "{"):
                i = match_close(toks, j) + 1
                continue
        out.append(toks[i]); i += 1
    return out


# ------------------------------------------------------------------------------------------------------------------
# classification
# ------------------------------------------------------------------------------------------------------------------

WRAPPER = re.compile(r'\( \|\| (?:\{ )?Ok :: < _ , EncodingError > \( @MACRO@ \)(?: \})? \) \( \) \. expect \( "[^"]*" \)')


class Ctx:
    def __init__(self, consts, params, node_u64):
        self.consts = consts              # name -> list of bytes
        self.params = dict(params)        # name -> type text
        self.node_u64 = node_u64          # set of "index", "length", "index()", "len()" known to be u64 on Node
        self.lets = {}                    # name -> ("items", [..]) | ("expr", ast) | ("alias", name)
        self.nodes = set()                # names known to denote a Node
        self.hasher = None

    def resolve(self, name):
        seen = set()
        while name in self.lets and self.lets[name][0] == "alias" and name not in seen:
            seen.add(name)
            name = self.lets[name][1]
        return name

    def expr_env(self):
        return {n: v[1] for n, v in self.lets.items() if v[0] == "expr"}


def strip_parens(toks):
    toks = list(toks)
    while len(toks) >= 2 and toks[0] == ("p", "(") and match_close(toks, 0) == len(toks) - 1:
        toks = toks[1:-1]
    return toks


def is_u64(e, ctx, cast):
    if cast:
        return True
    if e[0] == "bin" and e[1] == "Add":
        return is_u64(e[2], ctx, False) and is_u64(e[3], ctx, False)
    if e[0] == "var":
        name = e[1]
        if ctx.params.get(name, "").strip() == "u64":
            return True
        base, _, field = name.rpartition(".")
        if base in ctx.nodes and field in ctx.node_u64:
            return True
    return False


def u64_expr(toks, ctx):
    """tokens of an expression -> pure AST if it is (syntactically) a u64, else None"""
    toks = strip_parens(toks)
    cast = len(toks) > 2 and toks[-2:] == [("id", "as"), ("id", "u64")]
    try:
        e = Parser(list(toks)).expr_all()
    except Unsupported:
        return None
    # typing is judged on the expression as written and, for a let-bound name, on its definition
    def typed(x):
        if x[0] == "var" and x[1] in ctx.lets and ctx.lets[x[1]][0] == "expr":
            return ctx.lets[x[1]][2]
        if x[0] == "bin" and x[1] == "Add":
            return typed(x[2]) and typed(x[3])
        return is_u64(x, ctx, False)
    if not (cast or typed(e)):
        return None
    try:
        p = pure(subst(e, ctx.expr_env()))
    except Unsupported:
        return None
    # a variable whose base name was re-bound to something not understood (`let data = &data[..4096];`) is not the parameter
    for v in free_vars(p):
        base = v.partition(".")[0]
        if base in ctx.lets and ctx.lets[base][0] == "opaque":
            return None
    # aliases of parameters / nodes (`let node = node.as_ref()`) are followed in variable names
    return rename_vars(p, ctx)


def rename_vars(e, ctx):
    k = e[0]
    if k == "var":
        base, dot, rest = e[1].partition(".")
        return ("var", ctx.resolve(base) + dot + rest)
    if k == "not":
        return ("not", rename_vars(e[1], ctx))
    if k == "bin":
        return ("bin", e[1], rename_vars(e[2], ctx), rename_vars(e[3], ctx))
    if k == "if":
        return ("if", rename_vars(e[1], ctx), rename_vars(e[2], ctx), rename_vars(e[3], ctx))
    return e


def width(item):
    if item[0] in ("le64", "be64"):
        return 8
    if item[0] == "const":
        return len(item[2])
    if item[0] == "hash32":
        return 32
    return None


def macro_items(toks, ctx):
    """toks = the arguments of to_encoded_bytes!( .. ) -> list of items"""
    out = []
    for a in split_top(toks):
        t = text_of(a)
        if len(a) == 2 and a[0] == ("p", "&") and a[1][0] == "id" and a[1][1] in ctx.consts:
            out.append(("const", a[1][1], ctx.consts[a[1][1]]))
            continue
        m = re.fullmatch(r"as_array :: < 32 > \( (\w+) \) \?", t)
        if m and "u8" in ctx.params.get(m.group(1), ""):
            out.append(("hash32", m.group(1)))
            continue
        if len(a) > 4 and text_of(a[-4:]) == ". as_fixed_width ( )":
            e = u64_expr(a[:-4], ctx)
            if e is not None:
                out.append(("le64", e))
                continue
        out.append(("other", t))
    return out


def find_macro(toks):
    """-> (index of `to_encoded_bytes`, index of the closing bracket) of the only such macro call, or None"""
    hits = [i for i in range(len(toks) - 2) if toks[i] == ("id", "to_encoded_bytes") and toks[i + 1] == ("p", "!")
            and toks[i + 2][0] == "p" and toks[i + 2][1] in ("(", "[", "{")]
    if len(hits) != 1:
        return None
    return hits[0], match_close(toks, hits[0] + 2)


def encoded_bytes(toks, ctx):
    """toks = `(|| Ok::<_, EncodingError>(to_encoded_bytes!(..)))().expect("..")` (or the bare macro) -> items, or None"""
    fm = find_macro(toks)
    if fm is None:
        return None
    i, close = fm
    rest = text_of(list(toks[:i]) + [("id", "@MACRO@")] + list(toks[close + 1:]))
    if rest != "@MACRO@" and not WRAPPER.fullmatch(rest):
        return None
    return macro_items(toks[i + 3:close], ctx)


def classify_update(arg, ctx):
    """the argument tokens of hasher.update(..) -> list of items"""
    a = list(arg)
    while a and a[0] == ("p", "&"):
        a = a[1:]
    t = text_of(a)
    if len(a) == 1 and a[0][0] == "id":
        name = a[0][1]
        if name in ctx.lets and ctx.lets[name][0] == "alias":
            name = ctx.resolve(name)
        if name in ctx.lets and ctx.lets[name][0] == "items":
            return list(ctx.lets[name][1])
        if name in ctx.consts and name not in ctx.lets:
            return [("const", name, ctx.consts[name])]
        if name in ctx.params and name not in ctx.lets and re.fullmatch(r"& (?:' \w+ )?\[ u8 \]", ctx.params[name].strip()):
            return [("raw", name)]
        return [("other", t)]
    m = re.fullmatch(r"(\w+) \. hash \( \)", t)
    if m and ctx.resolve(m.group(1)) in ctx.nodes:
        return [("hash", ctx.resolve(m.group(1)))]
    m = re.fullmatch(r"u64_as_be \( (.*) \)", t)
    if m:
        e = u64_expr(a[2:-1], ctx)
        if e is not None:
            return [("be64", e)]
    m = re.fullmatch(r"(\w+) \[ (?:(\d+) )?\.\.(?: (\d+))? \]", t)
    if m and m.group(1) in ctx.lets and ctx.lets[m.group(1)][0] == "items":
        items = ctx.lets[m.group(1)][1]
        ws = [width(x) for x in items]
        if None not in ws:
            lo = int(m.group(2)) if m.group(2) else 0
            hi = int(m.group(3)) if m.group(3) else sum(ws)
            bounds = [sum(ws[:k]) for k in range(len(ws) + 1)]
            if lo in bounds and hi in bounds and lo <= hi:
                return list(items[bounds.index(lo):bounds.index(hi)])
    return [("other", t)]


def walk(body, ctx, loop_ok=True):
    """-> dict(before, loop=(var, iter, items)|None, after, ordering) or None when the update sequence is not recognisable"""
    before, after, loop, ordering = [], [], None, None
    for st, _semi in split_statements(body):
        if not st:
            continue
        t = text_of(st)
        cur = after if loop is not None else before
        m = re.fullmatch(r"let mut (\w+) = \w+ :: new \( \)", t)
        if m and ctx.hasher is None:
            ctx.hasher = m.group(1)
            continue
        if ctx.hasher and re.match(r"%s \. update \(" % re.escape(ctx.hasher), t) and match_close(st, 3) == len(st) - 1:
            cur.extend(classify_update(st[4:-1], ctx))
            continue
        m = re.fullmatch(r"let \( (\w+) , (\w+) \) = if (.+?) \{ \( (\w+) , (\w+) \) \} else \{ \( (\w+) , (\w+) \) \}", t)
        if m and ordering is None:
            try:
                cond = pure(Parser(tokenize(m.group(3))).expr_all())
            except Unsupported:
                return None
            srcs = [m.group(k) for k in (4, 5, 6, 7)]
            if not all("Node" in ctx.params.get(s, "") for s in srcs):
                return None
            ctx.nodes.update(srcs)
            ordering = dict(cond=cond, names=(m.group(1), m.group(2)), then=(srcs[0], srcs[1]), els=(srcs[2], srcs[3]))
            ctx.nodes.update(ordering["names"])
            continue
        if st[0] == ("id", "for") and loop_ok and loop is None:
            m = re.match(r"for (\w+) in (\w+) \{", t)
            if not m or "Node" not in ctx.params.get(m.group(2), ""):
                return None
            k = [i for i, x in enumerate(st) if x == ("p", "{")][0]
            ctx.nodes.add(m.group(1))
            inner = walk(st[k + 1:match_close(st, k)], ctx, loop_ok=False)
            if inner is None or inner["after"] or inner["ordering"]:
                return None
            loop = (m.group(1), m.group(2), inner["before"])
            continue
        if st[0] == ("id", "let"):
            eq = find_top(st, {"="})
            head = [x for x in st[1:eq] if x != ("id", "mut")] if eq > 0 else []
            if head and head[0][0] == "id" and (len(head) == 1 or head[1] == ("p", ":")):
                name, rhs = head[0][1], st[eq + 1:]
                rt = text_of(rhs)
                m = re.fullmatch(r"(\w+) \. as_ref \( \)", rt)
                if m and m.group(1) in ctx.nodes:
                    if m.group(1) != name:
                        ctx.lets[name] = ("alias", m.group(1))
                        ctx.nodes.add(name)
                    continue
                plain = [x for x in rhs if x != ("p", "&")]
                if len(plain) == 1 and plain[0][0] == "id" and (ctx.resolve(plain[0][1]) in ctx.params or
                                                                ctx.resolve(plain[0][1]) in ctx.nodes):
                    # `let data = block;`: another name for a parameter / node
                    if plain[0][1] != name:
                        ctx.lets[name] = ("alias", ctx.resolve(plain[0][1]))
                        if ctx.resolve(plain[0][1]) in ctx.nodes:
                            ctx.nodes.add(name)
                    continue
                items = encoded_bytes(rhs, ctx)
                if items is not None:
                    ctx.lets[name] = ("items", items)
                    continue
                m = re.fullmatch(r"u64_as_be \( (.*) \)", rt)
                if m:
                    e = u64_expr(rhs[2:-1], ctx)
                    ctx.lets[name] = ("items", [("be64", e)] if e is not None else [("other", rt)])
                    continue
                e = u64_expr(rhs, ctx)
                if e is not None:
                    ctx.lets[name] = ("expr", e, True)
                    continue
                try:
                    ctx.lets[name] = ("expr", pure(subst(Parser(list(rhs)).expr_all(), ctx.expr_env())), False)
                except Unsupported:
                    ctx.lets[name] = ("opaque",)
                continue
        # any other statement: harmless unless it touches the hasher other than to finalize it
        if ctx.hasher and any(x == ("id", ctx.hasher) for x in st):
            if re.search(r"%s \. finalize \( \)" % re.escape(ctx.hasher), t) and t.count(ctx.hasher) == 1:
                continue
            return None
    return dict(before=before, loop=loop, after=after, ordering=ordering)


# ------------------------------------------------------------------------------------------------------------------
# extraction
# ------------------------------------------------------------------------------------------------------------------

def node_u64_facts(src_root):
    try:
        toks = tokenize(open(os.path.join(src_root, "common/node.rs")).read())
    except OSError:
        return set()
    t = text_of(toks)
    out = set()
    m = re.search(r"struct Node \{", t)
    if m:
        i = t[:m.end()].count(" ")          # token index of '{'
        body = text_of(toks[i + 1:match_close(toks, i)])
        for f in ("index", "length"):
            if re.search(r"\b%s : u64\b" % f, body):
                out.add(f)
    for f in ("index", "len"):
        if re.search(r"fn %s \( & self \) -> u64 \{" % f, t):
            out.add(f + "()")
    return out


def callers(src_root, names):
    """name -> list of files (outside #[cfg(test)] modules, other than the definition itself) that mention `Hash::name(` / `name(`"""
    res = {n: [] for n in names}
    for root, _, files in os.walk(src_root):
        for f in sorted(files):
            if not f.endswith(".rs"):
                continue
            p = os.path.join(root, f)
            try:
                toks = without_tests(tokenize(open(p).read()))
            except OSError:
                continue
            for n in names:
                for i in range(len(toks) - 1):
                    if toks[i] == ("id", n) and toks[i + 1] == ("p", "(") and (i == 0 or toks[i - 1] != ("id", "fn")):
                        res[n].append(os.path.relpath(p, src_root))
                        break
    return res


def rename_expr(e, mp):
    k = e[0]
    if k == "var":
        base, dot, rest = e[1].partition(".")
        return ("var", mp.get(base, base) + dot + rest)
    if k == "not":
        return ("not", rename_expr(e[1], mp))
    if k == "bin":
        return ("bin", e[1], rename_expr(e[2], mp), rename_expr(e[3], mp))
    if k == "if":
        return ("if", rename_expr(e[1], mp), rename_expr(e[2], mp), rename_expr(e[3], mp))
    return e


def rename_items(items, mp):
    """parameters are given canonical names by position, so that a renamed parameter is not an alarm"""
    out = []
    for it in items:
        if it[0] in ("le64", "be64"):
            out.append((it[0], rename_expr(it[1], mp)))
        elif it[0] in ("raw", "hash", "hash32"):
            out.append((it[0], mp.get(it[1], it[1])))
        else:
            out.append(it)
    return out


def extract(src_root=None):
    src_root = src_root or REPO_SRC
    out = dict(data=None, parent=None, tree=None, signable_tree=None)
    path = os.path.join(src_root, HASH_RS)
    try:
        toks = without_tests(tokenize(open(path).read()))
    except OSError:
        return out
    consts = {}
    for name, rhs in srcconsts.file_consts(path).items():
        v = srcconsts.ev_bytes(rhs)
        if v is not None:
            consts[name] = v
    facts = node_u64_facts(src_root)
    impl = impl_block(toks, "Hash") or []

    def attempt(fn):
        try:
            return fn()
        except (Unsupported, IndexError, KeyError, TypeError, ValueError):
            return None

    def do_data():
        f = fn_raw(impl, "data")
        if not f:
            return None
        ctx = Ctx(consts, f[0], facts)
        w = walk(f[1], ctx, loop_ok=False)
        if not w or ctx.hasher is None or w["ordering"] or not w["before"]:
            return None
        if len(f[0]) != 1:
            return None
        return rename_items(w["before"], {f[0][0][0]: "data"})

    def do_parent():
        f = fn_raw(impl, "parent")
        if not f:
            return None
        ctx = Ctx(consts, f[0], facts)
        w = walk(f[1], ctx, loop_ok=False)
        if not w or ctx.hasher is None or not w["ordering"] or not w["before"]:
            return None
        o = w["ordering"]
        if not free_vars(o["cond"]) <= {p + ".index" for p, _ in f[0]}:
            return None
        if len(f[0]) != 2 or set(o["names"]) & {"left", "right"}:
            return None
        mp = {f[0][0][0]: "left", f[0][1][0]: "right"}
        return dict(cond=rename_expr(o["cond"], mp), names=o["names"], then=tuple(mp.get(x, x) for x in o["then"]),
                    els=tuple(mp.get(x, x) for x in o["els"]), items=rename_items(w["before"], mp))

    def do_tree():
        f = fn_raw(impl, "tree")
        if not f:
            return None
        ctx = Ctx(consts, f[0], facts)
        w = walk(f[1], ctx)
        if not w or ctx.hasher is None or w["ordering"] or not w["loop"]:
            return None
        var, it, body = w["loop"]
        return dict(before=w["before"], var=var, body=body, after=w["after"])

    def do_signable():
        f = fn_raw(toks, "signable_tree")
        if not f:
            return None
        ctx = Ctx(consts, f[0], facts)
        sts = [s for s, _ in split_statements(f[1]) if s]
        if len(sts) != 1:
            return None
        items = encoded_bytes(sts[0], ctx)
        if items is None or len(f[0]) != 3:
            return None
        return rename_items(items, {f[0][0][0]: "hash", f[0][1][0]: "length", f[0][2][0]: "fork"})

    out["data"] = attempt(do_data)
    out["parent"] = attempt(do_parent)
    out["tree"] = attempt(do_tree)
    out["signable_tree"] = attempt(do_signable)
    return out


# ------------------------------------------------------------------------------------------------------------------
# output
# ------------------------------------------------------------------------------------------------------------------

def coq_item(it):
    k = it[0]
    if k == "const":
        return 'HConst "%s" [%s]' % (it[1], "; ".join(str(b) for b in it[2]))
    if k == "le64":
        return "HLe64 %s" % coq_of(it[1])
    if k == "be64":
        return "HBe64 %s" % coq_of(it[1])
    if k == "raw":
        return 'HRaw "%s"' % it[1]
    if k == "hash":
        return 'HHash "%s"' % it[1]
    if k == "hash32":
        return 'HHash32 "%s"' % it[1]
    return 'HOther "%s"' % it[1].replace('"', "'")


def coq_items(items):
    return "[" + "; ".join(coq_item(i) for i in items) + "]"


def show_item(it):
    k = it[0]
    if k == "const":
        return it[1]
    if k in ("le64", "be64"):
        return "%s(%s)" % (k, show(it[1]))
    if k in ("raw", "hash", "hash32"):
        return "%s(%s)" % (k, it[1])
    return "OTHER(%s)" % it[1]


def show_desc(name, d):
    if d is None:
        return None
    if name == "parent":
        return "(%s, %s) = if %s { (%s, %s) } else { (%s, %s) }; %s" % (
            d["names"] + (show(d["cond"]),) + d["then"] + d["els"] + (" ++ ".join(show_item(i) for i in d["items"]),))
    if name == "tree":
        return "%s ++ for %s { %s } ++ %s" % (" ++ ".join(show_item(i) for i in d["before"]) or "-", d["var"],
                                              " ++ ".join(show_item(i) for i in d["body"]) or "-",
                                              " ++ ".join(show_item(i) for i in d["after"]) or "-")
    return " ++ ".join(show_item(i) for i in d)


def coq_text(ex):
    lines = ["(* generated on every run by tools/srchash.py from /repo/src/crypto/hash.rs: for Hash::data, Hash::parent, Hash::tree and",
             "   signable_tree the ordered, symbolically classified sequence of byte strings hashed / written, as the source states it now",
             "   (None = not found in a recognisable form). HashTie.v proves that the preimages of Crypto.v are their interpretation. *)",
             "From HC Require Import HashDesc.", "Local Open Scope string_scope.", "Local Open Scope N_scope.", ""]
    for name in ("data", "parent", "tree", "signable_tree"):
        s = show_desc(name, ex[name])
        if s:
            lines.append("(* %s *)" % s.replace("*)", "* )").replace("(*", "( *"))
    lines.append("")
    d = ex["data"]
    lines.append("Definition src_hash_data : option (list hitem) := %s." % ("Some " + coq_items(d) if d is not None else "None"))
    d = ex["parent"]
    if d is None:
        lines.append("Definition src_hash_parent : option parent_desc := None.")
    else:
        lines.append('Definition src_hash_parent : option parent_desc := Some {| pd_cond := %s; pd_names := ("%s", "%s"); '
                     'pd_then := ("%s", "%s"); pd_else := ("%s", "%s"); pd_items := %s |}.'
                     % ((coq_of(d["cond"]),) + d["names"] + d["then"] + d["els"] + (coq_items(d["items"]),)))
    d = ex["tree"]
    if d is None:
        lines.append("Definition src_hash_tree : option tree_desc := None.")
    else:
        lines.append('Definition src_hash_tree : option tree_desc := Some {| td_before := %s; td_var := "%s"; td_body := %s; td_after := %s |}.'
                     % (coq_items(d["before"]), d["var"], coq_items(d["body"]), coq_items(d["after"])))
    d = ex["signable_tree"]
    lines.append("Definition src_signable_tree : option (list hitem) := %s." % ("Some " + coq_items(d) if d is not None else "None"))
    return "\n".join(lines) + "\n"


LEGACY = ["from_leaf", "from_hashes", "from_roots"]
USED = ["data", "parent", "tree", "signable_tree"]


def regenerate(coq_dir, src_root=None):
    """writes SrcHash.v (only when its content changes, to keep make incremental); returns the list for the evidence"""
    src_root = src_root or REPO_SRC
    ex = extract(src_root)
    txt = coq_text(ex)
    p = os.path.join(coq_dir, "SrcHash.v")
    old = open(p).read() if os.path.exists(p) else None
    if old != txt:
        with open(p, "w") as fh:
            fh.write(txt)
    cs = callers(src_root, LEGACY)
    res = [dict(function=n, found=(ex[n] is not None), layout=show_desc(n, ex[n])) for n in USED]
    res.append(dict(legacy_big_endian_functions={n: dict(callers_outside_tests=sorted(set(cs[n]) - {HASH_RS}),
                                                         dead=not (set(cs[n]) - {HASH_RS}) and HASH_RS not in cs[n])
                                                 for n in LEGACY}))
    return res


if __name__ == "__main__":
    import sys, json
    root = sys.argv[1] if len(sys.argv) > 1 else REPO_SRC
    print(coq_text(extract(root)), end="")
    if len(sys.argv) > 2:
        print(json.dumps(callers(root, LEGACY + ["data", "parent", "tree", "signable_tree"]), indent=1), file=sys.stderr)

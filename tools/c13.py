"""C13 — replication events announce exactly the state changes that happened."""
from repl import *
import c03


def replica_events_world(pair, r, res, defer=False):
    """defer=False: every subscriber is drained after every call.  defer=True: events stay queued (fewer than 24 per
    subscriber, the queue holds 32) while further calls run, a second subscriber joins in the middle, and every
    subscriber must in the end have seen, in operation order, the concatenation of the per-call specifications of the
    calls made since it subscribed; growth steps make back-to-back upgrade-only proofs frequent."""
    w = build_world(pair, r)
    p = pair
    subs = ["s1", "s2", "s3"][:r.choice([1, 2, 3])]
    for s in subs:
        p.raw("sub R " + s)
        p.raw("sub W " + s)
    pending = dict((c, dict((s, []) for s in subs)) for c in "WR")
    calls = dict(W=[], R=[])

    def flush(core, what):
        first = None
        for s in sorted(pending[core]):
            ie, _ = p.raw("events %s %s" % (core, s))
            exp = "ok" + "".join(" " + e for e in pending[core][s])
            pending[core][s] = []
            if ie != exp:
                if not defer:
                    if first is not None and ie != first:
                        raise Violation("events:subscribers", "%s: subscribers saw different events: %s vs %s" % (what, first, ie), what)
                    raise Violation("events:" + what.split(" ")[0], "%s emitted [%s], specification says [%s]" % (what, ie[3:], exp[3:]), what)
                raise Violation("events:undrained", "subscriber %s of %s saw [%s] for the calls since it last drained (%s), specification says [%s]" %
                                (s, core, ie[3:], "; ".join(calls[core][-8:]), exp[3:]), what)
            first = ie
        calls[core] = []

    def drain(core, expected, what):
        calls[core].append(what)
        for s in pending[core]:
            pending[core][s].extend(expected)
        if not defer or max(len(v) for v in pending[core].values()) >= 20:
            flush(core, what)
    try:
        drain("W", [], "setup"); drain("R", [], "setup")
        for step in range(12 if not defer else 16):
            c = r.random()
            if defer and step == 5 and "late" not in pending["R"]:
                for core in "WR":
                    p.raw("sub %s late" % core)
                    pending[core]["late"] = []
            if defer and c < 0.3:
                # growth step: the writer appends, the replica fetches an upgrade-only proof
                old = w.wspec.length
                w.w_append([rnd_block(r)])
                drain("W", ["U", "H:%d:1:0" % old], "append 1 block")
                c = 0.99
                forced = w.honest_request(r, kinds=["upgrade"])
            else:
                forced = None
            if c < 0.15:
                old = w.wspec.length
                k = r.choice([0, 1, 2])
                w.w_append([rnd_block(r) for _ in range(k)])
                drain("W", ["U", "H:%d:%d:0" % (old, k)] if k else [], "append %d blocks" % k)
                continue
            if c < 0.25:
                i = r.randrange(w.wspec.length + 2)
                ia, _ = p.do("get R %d" % i)
                drain("R", [] if i in w.rheld else ["G:%d" % i], "get %d on replica" % i)
                continue
            if c < 0.3 and w.wspec.length:
                s = r.randrange(w.wspec.length)
                w.w_clear(s, s + 1)
                drain("W", [], "clear")
                continue
            req = forced or w.honest_request(r)
            if req is None:
                continue
            ia, _ = w.prove(**req[1])
            b = req[1].get("block")
            # reading a block the writer has cleared emits one get event on the writer
            if ia == "ok none":
                drain("W", ["G:%s" % b.split(",")[0]], "create_proof for a cleared block")
                continue
            drain("W", [], "create_proof")
            if not ia.startswith("ok "):
                continue
            pr = parse_proof(ia[3:])
            if r.random() < 0.25:
                # refused proof: nothing is announced
                q = copy.deepcopy(pr)
                if q["block"] is not None:
                    q["block"]["value"] = flip_hex(q["block"]["value"], r)
                elif q["upgrade"] is not None:
                    q["upgrade"]["signature"] = flip_hex(q["upgrade"]["signature"], r)
                else:
                    q["fork"] += 1
                aa, _ = p.do("apply R " + proof_text(q))
                if aa != "ok 1":
                    drain("R", [], "refused proof (%s)" % req[0])
                    res.count("refused")
                    continue
            before = set(w.rheld)
            aa, _ = w.apply(ia[3:])
            if aa != "ok 1":
                raise Violation("accept", "honest proof refused: " + aa, step)
            w.note_applied(pr)
            exp = (["U"] if pr["upgrade"] is not None else []) + (["H:%d:1:0" % pr["block"]["index"]] if pr["block"] is not None else [])
            drain("R", exp, "accepted proof (%s)" % req[0])
            res.count("accepted")
            # union of announced ranges = blocks that became available
            newly = set(w.rheld) - before
            ann = set([pr["block"]["index"]]) if pr["block"] is not None else set()
            if not newly <= ann:
                raise Violation("events:availability", "blocks %s became available without a have event" % (newly - ann), step)
        if defer:
            flush("W", "end of history"); flush("R", "end of history")
    except Violation as v:
        return dict(key=v.key, what=v.what, replay=dict(world=w.log, subscribers=len(subs)))
    return None


def repeated_upgrade(pair, r, res):
    """'an upgrade event if and only if the proof CARRIED an upgrade': proofs requested while the replica was still empty all
    carry the same upgrade section; applied one after the other, the later ones carry an upgrade that no longer grows the replica.
    Also the duplicate delivery of an upgrade-only proof. Every accepted one must announce the upgrade."""
    p = pair
    found = []
    n = r.choice([3, 5, 8])
    p.reset(); p.raw("disk D"); p.raw("disk RD")
    p.do("new W D writer"); p.do("new R RD replica")
    p.do("append W " + " ".join(hexb(bytes([65 + i]) * (i % 3 + 1)) for i in range(n)))
    p.raw("sub R s1")
    reqs = ["%d,0 - - 0,%d" % (i, n) for i in r.sample(range(n), min(n, 3))] + ["- - - 0,%d" % n]
    proofs = []
    for rq in reqs:
        ia, _ = p.do("prove W " + rq)
        if ia.startswith("ok ") and ia != "ok none":
            proofs.append((rq, ia[3:]))
    proofs.append(proofs[-1])   # duplicate delivery of the upgrade-only proof
    p.raw("events R s1")
    for k, (rq, pf) in enumerate(proofs):
        aa, ma = p.do("apply R " + pf)
        ie, me = p.raw("events R s1")
        res.count("repeated-upgrade-proofs")
        if aa != "ok 1":
            continue
        pr = parse_proof(pf)
        exp = "ok" + (" U" if pr["upgrade"] is not None else "") + (" H:%d:1:0" % pr["block"]["index"] if pr["block"] is not None else "")
        if ie != exp:
            found.append(dict(key="events:repeated-upgrade", what="proof number %d (request %s; the replica was already at length %d for k>0) was accepted and "
                              "carried an upgrade section, but the events were [%s], specification says [%s]" % (k, rq, n, ie[3:], exp[3:]),
                              replay=dict(blocks=n, requests=[x[0] for x in proofs], failing=k)))
            break
    return found


def failed_calls_silent(pair, r, res, tier):
    """'Refused, failed and no-op calls emit nothing': one I/O error is injected at EVERY storage operation of an
    append (writer) and of a proof application (replica), in every phase of the flush cadence; a call that answers an
    error must not have sent any event. Implementation only (the model has no failing storage; in the model an
    operation's events are sent after its last storage operation: CoreFacts.append_events / apply_events)."""
    im = pair.impl
    found = []

    def opcount(d):
        return int(im.cmd("opcount " + d).split(" ")[1])

    def scenario(setup, target, core, disk, label):
        # dry run: how many storage operations does the target call issue, and what does it announce
        im.cmd("reset")
        for c in setup:
            im.cmd(c)
        im.cmd("events %s s1" % core)
        a = opcount(disk)
        ans0 = im.cmd(target)
        b = opcount(disk)
        ev0 = im.cmd("events %s s1" % core)
        if not ans0.startswith("ok"):
            return
        for kf in range(a, b):
            im.cmd("reset")
            for c in setup:
                im.cmd(c)
            im.cmd("events %s s1" % core)
            im.cmd("fail %s %d" % (disk, kf))
            ans = im.cmd(target)
            im.cmd("fail %s off" % disk)
            ev = im.cmd("events %s s1" % core)
            res.count("faulted-calls-with-subscriber")
            if not ans.startswith("ok"):
                res.count("faulted-call-failed")
                if ev != "ok":
                    found.append(dict(key="events:failed-call", what="%s: I/O error at storage operation %d, the call answered %s but "
                                      "had already sent [%s]" % (label, kf - a, ans[:40], ev[3:]),
                                      replay=dict(setup=setup, target=target[:200], fail_at=kf)))
                    return
            elif ev != ev0:
                found.append(dict(key="events:faulted-ok", what="%s: call succeeded despite the fault but announced [%s] instead of [%s]" %
                                  (label, ev[3:], ev0[3:]), replay=dict(setup=setup, target=target[:200], fail_at=kf)))
                return

    # writer: appends in every phase of the cadence (the first call on an instance and every fourth flush)
    for prior in range(0, 5 if tier == "quick" else 9):
        setup = ["disk D", "new W D writer", "sub W s1"] + ["append W %s" % hexb(bytes([65 + j])) for j in range(prior)]
        scenario(setup, "append W 7a7a 79", "W", "D", "append after %d appends" % prior)
        if found:
            return found
    # writer: every OTHER call that touches storage — reads of held blocks (a failing read must not be announced as a missing
    # block), proof creation, missing-node queries, clears, make_read_only — with the fault at every storage operation (reads
    # and length queries included)
    wsetup = ["disk D", "new W D writer", "sub W s1"] + ["append W %s" % hexb(bytes([65 + j]) * (j + 1)) for j in range(6)]
    for target, label in [("get W 0", "get of a held (flushed) block"), ("get W 5", "get of a held (unflushed) block"),
                          ("prove W 2,0 - - -", "create_proof block"), ("prove W 1,1 - - 0,6", "create_proof block+upgrade"),
                          ("prove W - 4,0 3 -", "create_proof hash+seek"), ("missing W 3", "missing_nodes"),
                          ("clear W 1 3", "clear"), ("readonly W", "make_read_only")]:
        scenario(wsetup, target, "W", "D", label + " on a writer")
        if found:
            return found
    # the same after a reopen (cold instance: the first call flushes, nothing is cached in memory)
    for target, label in [("get W 3", "get of a held block"), ("prove W 4,0 - - 0,6", "create_proof block+upgrade"), ("clear W 0 2", "clear")]:
        scenario(wsetup + ["drop W", "open W D", "sub W s1"], target, "W", "D", label + " on a reopened writer")
        if found:
            return found
    # replica: proof applications (block + upgrade first, then blocks) in every phase
    im.cmd("reset")
    for c in ["disk D", "new W D writer", "append W 61 6262 63 6464 65 66 67 68"]:
        im.cmd(c)
    proofs = []
    pa = im.cmd("prove W 2,0 - - 0,8")
    proofs.append(pa[3:])
    # later block requests need the replica's missing-node counts: replay them on a scratch replica
    im.cmd("disk E"); im.cmd("new R E replica")
    im.cmd("apply R " + proofs[0])
    for i in (5, 0, 7, 3, 6):
        n = im.cmd("missing R %d" % i).split(" ")[1]
        pa = im.cmd("prove W %d,%s - - -" % (i, n))
        proofs.append(pa[3:])
        im.cmd("apply R " + pa[3:])
    for k in range(len(proofs) if tier != "quick" else 5):
        setup = ["disk E", "new R E replica", "sub R s1"] + ["apply R " + q for q in proofs[:k]]
        scenario(setup, "apply R " + proofs[k], "R", "E", "proof application number %d on a replica" % k)
        if found:
            return found
    # replica: reads of held blocks, proof creation and queries on a replica that holds part of the log
    rsetup = ["disk E", "new R E replica", "sub R s1"] + ["apply R " + q for q in proofs[:4]]
    for target, label in [("get R 2", "get of a held block"), ("get R 5", "get of a held block"), ("missing R 1", "missing_nodes"),
                          ("prove R 2,0 - - -", "create_proof block"), ("clear R 2 3", "clear"), ("readonly R", "make_read_only")]:
        scenario(rsetup, target, "R", "E", label + " on a replica")
        if found:
            return found
    return found


def fanout_spec(cap, ops):
    """The abstract reading of the event channel (coq/BroadcastFacts.v, `spec_step`): the list of messages sent so far and
    one cursor per live subscriber; nothing else. Returns the expected answer tokens of `bcx CAP ops`."""
    sent, cur, out = [], [], []
    for o in ops:
        live = [p for p in cur if p is not None]
        tail = len(sent)
        head = max(min(live + [tail]), tail - cap)
        if o[0] == "s":
            if not live:
                out.append("inactive")
            else:
                out.append("ok:%d" % sent[tail - cap] if tail - head == cap else "ok")
                sent.append(int(o[1:]))
        elif o == "n":
            cur.append(tail)
            out.append("id:%d" % (len(cur) - 1))
        elif o == "l":
            out.append("n:%d:%d" % (tail - head, len(live)))
        else:
            k = int(o[1:])
            if k >= len(cur) or cur[k] is None:
                out.append("x")
            elif o[0] == "d":
                cur[k] = None
                out.append("done")
            elif cur[k] + cap < tail:
                out.append("ov:%d" % (tail - cap - cur[k]))
                cur[k] = tail - cap
            elif cur[k] < tail:
                out.append("m:%d" % sent[cur[k]])
                cur[k] += 1
            else:
                out.append("empty")
    return out


def fanout_ops(r):
    """random `bcx` operation list: capacities 1..4 and 32, up to 4 subscribers alive, bursts of sends longer than the capacity,
    partial and complete drains, late subscribers, drops of lagging subscribers, identifiers that do not exist"""
    cap = r.choice([1, 2, 3, 4, 32])
    ops, nrcv, alive, msg = [], 0, [], 0
    for step in range(r.randrange(3, 20)):
        c = r.random()
        if (c < 0.18 or (step == 0 and c < 0.8)) and len(alive) < 4:
            ops.append("n"); alive.append(nrcv); nrcv += 1
        elif c < 0.5:
            n = r.choice([1, 1, 2, cap, cap + 1, cap + r.randrange(1, 4), 2 * cap + 1])
            for _ in range(n):
                msg = msg + 1 if r.random() < 0.9 else r.randrange(0, 3)     # mostly distinct, sometimes repeated values
                ops.append("s%d" % msg)
        elif c < 0.8:
            k = r.choice(alive) if alive and r.random() < 0.9 else r.randrange(0, nrcv + 2)
            ops.extend(["r%d" % k] * r.choice([1, 1, 2, cap, cap + 2]))
        elif c < 0.9:
            k = r.choice(alive) if alive and r.random() < 0.85 else r.randrange(0, nrcv + 2)
            ops.append("d%d" % k)
            if k in alive:
                alive.remove(k)
        else:
            ops.append("l")
        if r.random() < 0.25:
            ops.append("l")
    return cap, ops


def fanout_crosscheck(pair, res, seed, tier):
    """The fan-out itself: the dependency crate async-broadcast, configured exactly as Events::new() of src/replication/events.rs
    configures it, against coq/Broadcast.v (the extracted model; BroadcastFacts.v proves that it refines the abstract reading: every
    subscriber sees the messages sent since it subscribed, in order, losing exactly the oldest ones when it falls more than the
    capacity behind) and against the abstract reading itself (fanout_spec), token by token."""
    found = []
    r = random.Random(seed * 1000003 + 13)
    for k in range(400 if tier == "quick" else 8000):
        cap, ops = fanout_ops(r)
        cmd = "bcx %d %s" % (cap, " ".join(ops))
        ia = pair.impl.cmd(cmd)
        ma = pair.model.cmd(cmd)
        exp = fanout_spec(cap, ops)
        res.count("fanout-sequences")
        res.count("fanout-answers-compared", len(ops))
        it, mt = ia.split(" ")[1:], ma.split(" ")[1:]
        if not ia.startswith("ok") or it != mt or it != exp or len(it) != len(ops):
            j = next((i for i in range(len(ops)) if i >= len(it) or i >= len(mt) or it[i] != mt[i] or it[i] != exp[i]), len(ops))
            found.append(dict(key="fanout:model", what="event channel (async-broadcast as Events::new() configures it), capacity %d: operation %d (%s) of "
                              "the sequence answered %s on the crate, %s in Broadcast.v, %s in the abstract reading" %
                              (cap, j, ops[j] if j < len(ops) else "-", (it[j] if j < len(it) else ia[:60]), (mt[j] if j < len(mt) else ma[:60]),
                               exp[j] if j < len(exp) else "-"),
                              replay=dict(cmd=cmd, first_difference=j, impl=ia[:600], model=ma[:600], spec="ok " + " ".join(exp)[:600])))
            break
        for t in it:
            if t.startswith("ov:"):
                res.count("fanout-overflowed-answers")
            elif t.startswith("ok:"):
                res.count("fanout-sends-dropping-oldest")
    return found


def fanout_on_core(pair, res, seed, tier):
    """The channel INSIDE Hypercore (Events::new(): capacity 32, overflow mode, kept inactive receiver; Events::send ignores the Inactive
    error), observed through event_subscribe on a real writer, against the abstract reading with capacity 32: appends made before anybody
    subscribed are not seen; a subscriber that lets more than 32 events queue up is answered Overflowed(n) for exactly the n oldest ones and
    then receives the newest 32 in order (BroadcastFacts.overflow_loses_oldest); a late subscriber sees the events sent since it subscribed.
    Implementation only (the model driver keeps an unbounded event list per core)."""
    im = pair.impl
    found = []
    r = random.Random(seed * 1000003 + 29)

    def text(tok):
        if tok.startswith("ov:"):
            return "O:" + tok[3:]
        m = int(tok[2:])
        return "U" if m % 2 == 0 else "H:%d:1:0" % (m // 2)

    for k in range(6 if tier == "quick" else 80):
        n_before = r.choice([0, 1, 3])
        n1 = r.choice([5, 15, 16, 17, 20, 33, 40])
        late_at = r.randrange(0, n1 + 1)
        mid_drain = r.choice([None, r.randrange(0, n1 + 1)])
        im.cmd("reset"); im.cmd("disk D"); im.cmd("new W D writer")
        ops, total = [], 0

        def append():
            nonlocal total
            im.cmd("append W %02x" % (total % 256))
            ops.extend(["s%d" % (2 * total), "s%d" % (2 * total + 1)])     # DataUpgrade, Have(total, 1)
            total += 1

        def drain(name, rid, what):
            got = im.cmd("events W " + name)
            exp, n = [], 0
            while True:
                t = fanout_spec(32, ops + ["r%d" % rid] * (n + 1))[-1]
                if t == "empty":
                    break
                exp.append(text(t)); n += 1
            ops.extend(["r%d" % rid] * (n + 1))
            res.count("fanout-core-drains")
            if any(e.startswith("O:") for e in exp):
                res.count("fanout-core-overflowed-drains")
            if got != "ok" + "".join(" " + e for e in exp):
                found.append(dict(key="fanout:core", what="%s: subscriber %s of a writer received [%s]; the channel as events.rs configures it "
                                  "(capacity 32, overflow mode) gives [%s]" % (what, name, got[3:][:300], " ".join(exp)[:300]),
                                  replay=dict(appends_before_subscribing=n_before, appends=n1, second_subscriber_after=late_at,
                                              first_subscriber_drains_after=mid_drain, channel_ops=" ".join(ops))))
                return False
            return True

        for _ in range(n_before):
            append()
        im.cmd("sub W s1"); ops.append("n")
        ok = True
        for i in range(n1 + 1):
            if i == late_at:
                im.cmd("sub W s2"); ops.append("n")
            if ok and i == mid_drain:
                ok = drain("s1", 0, "after %d appends" % i)
            if i < n1:
                append()
        ok = ok and drain("s1", 0, "after %d appends" % n1) and drain("s2", 1, "subscribed after %d of %d appends" % (late_at, n1))
        if not ok:
            break
    return found


def main(tier, seed):
    res = Result("C13", tier, seed)
    res.gate = coq_gate("C13.v", clean=(tier == "thorough"))
    build_harness(); build_model()
    r = random.Random(seed)
    pair = Pair()
    try:
        for k in range(40 if tier == "quick" else 800):
            h = random_history(r, r.choice([4, 8, 14]), reopen_p=0.08, clear_p=0.15)
            h += [("get", r.randrange(0, 12)) for _ in range(3)]
            r.shuffle(h)
            h = [o for i, o in enumerate(h) if not (o[0] == "clear")] + []   # clears need start<length; keep simple
            v, _ = find_violation(pair, h, probe="none", events=True)
            res.add_case(("writer",) + tuple(op_text(o) for o in h), True, sample=[op_text(o) for o in h][:8] if k % 10 == 0 else None)
            if v:
                res.violations.append(dict(key=v.key, what=v.what, replay=dict(history=[op_json(o) for o in h])))
            res.disagreements.extend(pair.disagreements[:2]); pair.disagreements = []
        for k in range(20 if tier == "quick" else 500):
            v = replica_events_world(pair, r, res, defer=(k % 2 == 1))
            res.add_case(("replica-world", k, "undrained" if k % 2 else "drained"), True)
            if v:
                res.violations.append(v)
            res.disagreements.extend(pair.disagreements[:2]); pair.disagreements = []
            if len(res.violations) >= 4:
                break
        for k in range(4 if tier == "quick" else 60):
            res.violations.extend(repeated_upgrade(pair, r, res))
            res.disagreements.extend(pair.disagreements[:2]); pair.disagreements = []
        res.add_case(("repeated-upgrade",), True)
        res.violations.extend(failed_calls_silent(pair, r, res, tier))
        res.add_case(("failed-calls-silent",), True, sample="I/O error at every storage operation (reads included) of appends, proof applications, gets of held blocks, create_proof, missing_nodes, clear, make_read_only with a subscriber attached")
        res.extra["commands_compared"] = pair.ncmp
        res.violations.extend(fanout_crosscheck(pair, res, seed, tier))
        res.add_case(("fanout",), True, sample="bcx <capacity> <random send/subscribe/try_recv/drop/len sequence>: async-broadcast crate vs Broadcast.v vs abstract reading")
        res.violations.extend(fanout_on_core(pair, res, seed, tier))
        res.add_case(("fanout-core",), True, sample="writer with two subscribers, up to 40 appends between drains: Overflowed(n) then the newest 32 events, as the abstract reading with capacity 32 says")
    finally:
        pair.close()
    return res.finish(
        "theorems of coq/props/C13.v (events of every model step equal the event specification); events are drained after every "
        "call from 1-3 subscribers on writers and replicas and compared with the specification and with the model "
        "(fan-out: coq/Broadcast.v models async_broadcast as configured by events.rs and is run against the crate itself on random sequences, "
        "BroadcastFacts.v proves in-order, loss-free delivery while a subscriber is at most the capacity behind and the exact loss otherwise)",
        "writer histories with gets of held/missing indices, empty batches, reopen; replica worlds with accepted and refused proofs")


if __name__ == "__main__":
    sys.exit(main(sys.argv[1], seed_from_env()))

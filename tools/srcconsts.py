"""srcconsts — a (tiny) translator from the crate's source to Coq: the named constants of /repo/src that the
model depends on are parsed on every run and written to coq/SrcConsts.v as `option` values (None when the
constant is no longer found under that name in that file — a rename must not raise an alarm); coq/ConstTie.v
proves that every constant that was found equals the value the model uses. A changed constant therefore breaks
a proof obligation even when no generated history happens to depend on it."""
import os, re

REPO_SRC = "/repo/src"

# (source file, Rust name, kind)
CONSTS = [
    ("tree/merkle_tree.rs", "NODE_SIZE", "num"),
    ("oplog/mod.rs", "MAX_OPLOG_ENTRIES_BYTE_SIZE", "num"),
    ("oplog/mod.rs", "HEADER_SIZE", "num"),
    ("oplog/mod.rs", "CRC_SIZE", "num"),
    ("oplog/mod.rs", "LEADER_SIZE", "num"),
    ("oplog/mod.rs", "INITIAL_HEADER_BITS", "bools"),
    ("bitfield/dynamic.rs", "DYNAMIC_BITFIELD_PAGE_SIZE", "num"),
    ("bitfield/fixed.rs", "FIXED_BITFIELD_LENGTH", "num"),
    ("bitfield/fixed.rs", "FIXED_BITFIELD_BYTES_LENGTH", "num"),
    ("bitfield/fixed.rs", "FIXED_BITFIELD_BITS_LENGTH", "num"),
    ("crypto/hash.rs", "LEAF_TYPE", "bytes"),
    ("crypto/hash.rs", "PARENT_TYPE", "bytes"),
    ("crypto/hash.rs", "ROOT_TYPE", "bytes"),
    ("crypto/hash.rs", "TREE", "bytes"),
    ("crypto/manifest.rs", "DEFAULT_NAMESPACE", "bytes"),
]


def strip_comments(src):
    src = re.sub(r"/\*.*?\*/", " ", src, flags=re.S)
    return "\n".join(l.split("//")[0] for l in src.split("\n"))


def file_consts(path):
    """name -> raw right-hand side, for every `const NAME: T = RHS;` of the file"""
    try:
        src = strip_comments(open(path).read())
    except OSError:
        return {}
    out = {}
    for m in re.finditer(r"\bconst\s+([A-Z][A-Z0-9_]*)\s*:\s*[^=]+?=\s*(.*?);", src, flags=re.S):
        out.setdefault(m.group(1), m.group(2).strip())
    return out


def ev_num(rhs, env, depth=0):
    rhs = re.sub(r"\bas\s+[a-z0-9]+", "", rhs)
    rhs = re.sub(r"(\d)_(?=\d)", r"\1", rhs)
    rhs = re.sub(r"(\d)(u8|u16|u32|u64|usize|i32|i64)\b", r"\1", rhs)
    if not re.fullmatch(r"[0-9A-Za-z_xX\s+*()\-]+", rhs) or depth > 8:
        return None
    def sub(m):
        n = m.group(0)
        if re.fullmatch(r"0[xX][0-9a-fA-F]+|\d+", n):
            return n
        if n in env:
            v = ev_num(env[n], env, depth + 1)
            return str(v) if v is not None else "None"
        return "None"
    e = re.sub(r"[A-Za-z_][A-Za-z0-9_]*|0[xX][0-9a-fA-F]+|\d+", sub, rhs)
    if "None" in e:
        return None
    try:
        v = eval(e, {"__builtins__": {}}, {})
    except Exception:
        return None
    return v if isinstance(v, int) and v >= 0 else None


def ev_bytes(rhs):
    m = re.fullmatch(r'\*?b"([^"\\]*)"', rhs)
    if m:
        return list(m.group(1).encode())
    m = re.fullmatch(r"\[(.*)\]", rhs, flags=re.S)
    if not m:
        return None
    items = [x.strip() for x in m.group(1).split(",") if x.strip()]
    out = []
    for it in items:
        it = re.sub(r"(u8)$", "", it)
        try:
            v = int(it, 0)
        except ValueError:
            return None
        if not 0 <= v < 256:
            return None
        out.append(v)
    return out


def ev_bools(rhs):
    m = re.fullmatch(r"\[(.*)\]", rhs, flags=re.S)
    if not m:
        return None
    items = [x.strip() for x in m.group(1).split(",") if x.strip()]
    if not all(i in ("true", "false") for i in items):
        return None
    return [i == "true" for i in items]


def extract(src_root=REPO_SRC):
    res = []
    for (f, name, kind) in CONSTS:
        env = file_consts(os.path.join(src_root, f))
        rhs = env.get(name)
        val = None
        if rhs is not None:
            val = ev_num(rhs, env) if kind == "num" else ev_bytes(rhs) if kind == "bytes" else ev_bools(rhs)
        res.append((f, name, kind, val))
    return res


def coq_text(consts):
    lines = ["(* generated on every run by tools/srcconsts.py from /repo/src: the crate's named constants as the source",
             "   states them now (None = no constant of that name in that file any more). ConstTie.v ties them to the model. *)",
             "From Coq Require Import List NArith Bool.", "Import ListNotations.", "Local Open Scope N_scope.", ""]
    for (f, name, kind, val) in consts:
        cname = "src_" + name
        if kind == "num":
            body = "Some %d" % val if val is not None else "None"
            lines.append("Definition %s : option N := %s.   (* %s *)" % (cname, body, f))
        elif kind == "bytes":
            body = "Some [%s]" % "; ".join(str(b) for b in val) if val is not None else "None"
            lines.append("Definition %s : option (list N) := %s.   (* %s *)" % (cname, body, f))
        else:
            body = "Some [%s]" % "; ".join("true" if b else "false" for b in val) if val is not None else "None"
            lines.append("Definition %s : option (list bool) := %s.   (* %s *)" % (cname, body, f))
    return "\n".join(lines) + "\n"


def regenerate(coq_dir):
    """writes SrcConsts.v (only when its content changes, to keep make incremental); returns the list for evidence"""
    consts = extract()
    txt = coq_text(consts)
    p = os.path.join(coq_dir, "SrcConsts.v")
    old = open(p).read() if os.path.exists(p) else None
    if old != txt:
        with open(p, "w") as fh:
            fh.write(txt)
    return [dict(file=f, name=n, found=(v is not None), value=(v if k == "num" else None)) for (f, n, k, v) in consts]


if __name__ == "__main__":
    import sys
    print(coq_text(extract(sys.argv[1] if len(sys.argv) > 1 else REPO_SRC)))

"""C14 — behaviour and bytes are independent of storage backend and node cache."""
from repl import *
import jsfmt, os, tempfile, shutil


def run_config(srv, script, disk_kind, cache):
    """runs a command script (writer W on D, replica R on RD) on one server; returns (answers, files)"""
    srv.cmd("reset")
    srv.cmd("disk D " + disk_kind); srv.cmd("disk RD " + disk_kind)
    out = []
    for c in script:
        if c.startswith("new ") or c.startswith("open "):
            c = c + " cache=" + cache
        out.append(klass(srv.cmd(c)))
    srv.cmd("drop W"); srv.cmd("drop R")
    files = (canon_files(srv.cmd("files D")), canon_files(srv.cmd("files RD")))
    return out, files


def canon_files(ans):
    """files are compared byte for byte, except that a zero-filled hole at the END of the data store is
    ignored: a zero-length write beyond the end (an empty block stored by a replica) extends the in-memory
    backends with zeros but leaves a disk file as it is ("up to zero-filled holes")."""
    try:
        t, d, b, o = jsfmt.parse_files(ans)
    except Exception:
        return ans
    return (t, d.rstrip(b"\x00"), b, o)


def make_script(pair, r):
    """records a replication world on the baseline configuration and returns its command list"""
    import c03
    res = Result("C14", "quick", 0)
    w = build_world(pair, r, nblocks=r.choice([3, 6, 9, 14]))
    script = []
    # rebuild a deterministic script: writer appends, clears, replica requests using recorded proofs
    return w


def paged_memory_crosscheck(base, model, res, r, tier):
    """PagedMem.v (model of random-access-memory 3.0.0, proved to refine the flat file of Storage.v:
    C14_paged_memory_refines_flat_file) against the crate itself on random operation sequences with small page sizes
    (page borders everywhere) and with the default 1 MiB page; the flat-file answer is printed by the model driver too."""
    n = 300 if tier == "quick" else 6000
    for k in range(n):
        ps = r.choice([1, 2, 3, 4, 5, 8, 16, 1048576])
        top = ps * r.choice([2, 5, 9]) if ps < 1000 else 3000
        ops = []
        for _ in range(r.randrange(1, 14)):
            c = r.random()
            off = r.choice([0, r.randrange(top + 3), r.randrange(top + 3), (r.randrange(6)) * ps])
            ln = r.choice([0, 1, r.randrange(2 * ps + 2) if ps < 1000 else r.randrange(40), ps if ps < 1000 else 7])
            if c < 0.4:
                ops.append("w:%d:%s" % (off, hexb(bytes(r.randrange(1, 256) for _ in range(ln)))))
            elif c < 0.6:
                ops.append("r:%d:%d" % (off, ln))
            elif c < 0.8:
                ops.append("d:%d:%d" % (off, ln))
            elif c < 0.93:
                ops.append("t:%d" % off)
            else:
                ops.append("l")
        cmd = "ramx %d %s" % (ps, " ".join(ops))
        ia = base.cmd(cmd)
        ma = model.cmd(cmd)
        res.count("paged-memory-sequences")
        if "||" not in ma:
            res.disagreements.append(dict(cmd=cmd[:200], impl=ia[:200], model=ma[:200]))
            continue
        mram, mfile = [x.strip() for x in ma[3:].split("||")]
        if klass(ia) == "crash" or ia[3:].strip() != mram:
            res.disagreements.append(dict(cmd=cmd[:300], impl=ia[:300], model="ok " + mram[:300], level="random-access-memory vs PagedMem.v"))
        if mram != mfile:
            res.disagreements.append(dict(cmd=cmd[:300], impl="paged model: " + mram[:300], model="flat file: " + mfile[:300], level="PagedMem.v vs Storage.v (theorem instance)"))
        if len(res.disagreements) >= 3:
            break


TOKIO_MAX_READ = 2097152     # tokio::fs::File reads at most max_buf_size = 2 MiB per read call


def _unhex(h):
    return b"" if h == "_" else bytes.fromhex(h)


def disk_file_crosscheck(base, model, res, r, tier):
    """DiskFile.v (model of random-access-disk 3.0.1 over a POSIX file, proved to refine the flat file of Storage.v:
    DiskFileFacts.rad_refines_file / rad_session_refines_file) against the crate itself (as compiled into the harness: tokio, hole
    punching) on a fresh file in the scratch directory, on random operation sequences with reopens (`o`) and with zero-length writes
    beyond the end (the one place where disk and flat file part, DESIGN 11.4). Compared: every observation, the content read back
    through the interface and the bytes of the file as the OS has them. The model driver also prints the `del`-writes-zeros variant
    (default.rs), the flat-file answer and whether the sequence satisfies the premise `ops_tight` of the refinement theorem; the
    theorem instances are checked here too."""
    n = 250 if tier == "quick" else 5000
    for k in range(n):
        top = r.choice([8, 20, 60, 5000])
        ops = []
        for _ in range(r.randrange(1, 16)):
            c = r.random()
            off = r.choice([0, r.randrange(top + 3), r.randrange(top + 3)])
            ln = r.choice([0, 1, r.randrange(top // 2 + 2), r.randrange(top // 2 + 2), r.randrange(12)])
            if c < 0.38:
                if ln == 0 and r.random() < 0.35:
                    ln = 1 + r.randrange(5)     # keep most sequences inside the premise of the refinement theorem
                ops.append("w:%d:%s" % (off, hexb(bytes(r.randrange(1, 256) for _ in range(ln)))))
            elif c < 0.58:
                ops.append("r:%d:%d" % (off, ln))
            elif c < 0.76:
                ops.append("d:%d:%d" % (off, ln))
            elif c < 0.87:
                ops.append("t:%d" % off)
            elif c < 0.93:
                ops.append("l")
            else:
                ops.append("o")
        cmd = "diskx diskx_%d %s" % (k, " ".join(ops))
        ia = base.cmd(cmd)
        ma = model.cmd(cmd)
        res.count("disk-file-sequences")
        parts = [x.strip() for x in ma[3:].split("||")]
        if not ma.startswith("ok ") or len(parts) != 4:
            res.disagreements.append(dict(cmd=cmd[:300], impl=ia[:200], model=ma[:200]))
            continue
        mpunch, mzeros, mflat, tight = parts
        if klass(ia) == "crash" or ia[3:].strip() != mpunch:
            res.disagreements.append(dict(cmd=cmd[:400], impl=ia[:300], model="ok " + mpunch[:300], level="random-access-disk vs DiskFile.v"))
        # instances of the theorems of DiskFileFacts.v (premise dop_read_fits: every read fits one read call of the runtime)
        bad = None
        if any(o.startswith("r:") and int(o.split(":")[2]) > TOKIO_MAX_READ for o in ops):
            res.count("disk-file-sequences-read-above-cap")
        elif tight == "tight=1":
            res.count("disk-file-sequences-tight")
            flat3 = mflat + " | " + mflat.split(" | ")[-1]
            if mpunch != flat3 or mzeros != flat3:
                bad = "rad_refines_file"
        elif "o" not in ops:
            res.count("disk-file-sequences-loose-one-session")
            fobs, fcontent = mflat.rsplit(" | ", 1)
            for m in (mpunch, mzeros):
                obs, content, raw = m.rsplit(" | ", 2)
                rawb, cb = _unhex(raw), _unhex(fcontent)
                if obs != fobs or content != fcontent or rawb + bytes(len(cb) - len(rawb)) != cb:
                    bad = "rad_session_refines_file"
        else:
            res.count("disk-file-sequences-loose-with-reopen")
        if bad:
            res.disagreements.append(dict(cmd=cmd[:400], impl="disk model: " + mpunch[:200] + " || " + mzeros[:200], model="flat file: " + mflat[:200],
                                          level="DiskFile.v vs Storage.v (theorem instance %s)" % bad))
        if len(res.disagreements) >= 3:
            break


def disk_capped_read_case(base, res):
    """thorough tier only (the extracted model needs about a minute on 2 MiB lists): a read of more than 2 MiB on the real crate
    against DiskFile.v with dc_read_cap = 2 MiB — both answer the first 2 MiB of the range followed by zeros (no error)."""
    n = TOKIO_MAX_READ + 5
    data = bytes((i * 7 + 1) % 251 + 1 for i in range(n))
    cmd = "diskx diskx_cap w:0:%s r:3:%d" % (hexb(data), n - 3)
    ia = base.cmd(cmd)
    model = Server([MODEL_BIN], "model", {"HC_PRIM_HELPER": HARNESS_BIN, "OCAMLRUNPARAM": "s=64M"})
    try:
        ma = model.cmd(cmd)
    finally:
        model.close()
    res.count("disk-file-read-above-cap")
    mpunch = ma[3:].split("||")[0].strip()
    if klass(ia) == "crash" or not ma.startswith("ok ") or ia[3:].strip() != mpunch:
        res.disagreements.append(dict(cmd=cmd[:60] + "... r:3:%d" % (n - 3), impl=ia[:80] + " ... " + ia[-60:], model=ma[:80],
                                      level="random-access-disk vs DiskFile.v (read above the 2 MiB cap)"))


def disk_big_read_probe(base):
    """A block larger than tokio's 2 MiB per-read cap must read back identically on every backend, before and after a reopen
    (RandomAccessDisk::read issues ONE file.read and ignores its count — DiskFileFacts.capped_read_differs — so the crate must not
    ask the disk backend for more than one read call delivers)."""
    n = 3 * 1024 * 1024
    data = bytes((i * 7 + 1) % 251 + 1 for i in range(n))
    got = {}
    for dk in ("ram", "file"):
        base.cmd("reset"); base.cmd("disk D " + dk)
        base.cmd("new W D writer cache=off")
        base.cmd("append W " + hexb(data))
        got[dk] = base.cmd("get W 0")
        base.cmd("drop W")
        if dk == "file":
            base.cmd("open W D cache=off")
            got["file-reopened"] = base.cmd("get W 0")
            base.cmd("drop W")
    if got["ram"] == got["file"] and got["file-reopened"] != got["ram"]:
        got["file"] = got["file-reopened"]
    if got["ram"] != got["file"]:
        a = got["file"].split(" ")
        first = None
        if len(a) == 3:
            b = _unhex(a[2])
            first = next((i for i in range(min(len(b), n)) if b[i] != data[i]), None)
        return [dict(key="disk:big-read", what="backend=file: get of a 3 MiB block differs from backend=ram (first differing byte %s); "
                     "random-access-disk read() delivers at most one tokio read call (2 MiB), the rest of the buffer stays zero" % first,
                     replay=dict(script=["disk D file", "new W D writer", "append W <3145728 bytes, byte i = (7 i + 1) mod 251 + 1>", "get W 0"]))]
    return []


def crash_recovery_on_disk(srv, res, r, tier):
    """the same bytes on disk open to the same core on every backend — also when they are what a CRASH left: histories run on the
    instrumented backend (which journals its storage operations), cut at crash points of the last call; the four stores as of each
    cut are copied into real files and opened through random-access-disk, and into a fresh instrumented disk: observations must be
    identical. Includes one batch whose oplog entry exceeds what one OS read call delivers (> 2 MiB), cut right after the entry
    write (the whole oplog is read with one instruction when a core is opened)."""
    found = []
    histories = [["append W 6669727374", "append W " + " ".join(["%02x" % (1 + i % 250) for i in range(40000)])]]
    for _ in range(2 if tier == "quick" else 12):
        h = []
        for _ in range(r.choice([2, 4, 6])):
            c = r.random()
            if c < 0.7 or not h:
                h.append("append W " + " ".join(hexb(rnd_block(r)) for _ in range(r.choice([1, 2, 5]))))
            elif c < 0.85:
                h.append("clear W 0 1")
            else:
                h += ["drop W", "open W D"]
        histories.append(h)
    for hi, h in enumerate(histories):
        srv.cmd("reset"); srv.cmd("disk D vec"); srv.cmd("new W D writer")
        n0 = 0
        for c in h:
            n0, _ = parse_journal(srv.cmd("journal D 0"))
            srv.cmd(c)
        n1, _ = parse_journal(srv.cmd("journal D 0"))
        nblocks = int(srv.cmd("info W").split(" ")[1])
        srv.cmd("drop W")
        cuts = list(range(n0, n1 + 1))
        if len(cuts) > 6:
            cuts = cuts[:3] + r.sample(cuts[3:-1], 2) + [cuts[-1]]
        probes = ["info W"] + ["get W %d" % i for i in sorted(set([0, 1, nblocks // 2, max(nblocks - 1, 0), nblocks]))] + \
                 ["has W %d" % i for i in sorted(set([0, max(nblocks - 1, 0), nblocks]))] + ["append W 7a", "info W"]
        if hi == 0:
            # the big batch: only the crash right after its oplog entry write (data write, entry write), and no further append
            # (the recovered core would flush 80000 tree nodes one synced write at a time on the disk backend)
            cuts = [n0 + 2]
            probes = probes[:-2]
        for cut in cuts:
            obs = {}
            for kind in ("vec", "file"):
                srv.cmd("fork X D %d" % cut)
                if kind == "file":
                    a = srv.cmd("disk F file from=X")
                    if a != "ok":
                        found.append(dict(key="disk:copy", what="copying the crash state into files answered " + a, replay=dict(history=h[:6], cut=cut)))
                        return found
                disk = "X" if kind == "vec" else "F"
                o = [klass(srv.cmd("open W %s cache=off" % disk))]
                o += [klass(srv.cmd(c)) for c in probes]
                srv.cmd("drop W")
                obs[kind] = o
            res.count("crash-states-opened-on-disk-backend")
            if obs["vec"] != obs["file"]:
                k = next(i for i in range(len(obs["vec"])) if obs["vec"][i] != obs["file"][i])
                what = (["open"] + probes)[k]
                found.append(dict(key="disk:crash-recovery", what="the stores as a crash left them (history %d, %d of %d storage operations of the last call done) open to "
                                  "different cores: `%s` answers %s on the instrumented backend and %s on the disk backend" %
                                  (hi, cut - n0, n1 - n0, what, obs["vec"][k][:70], obs["file"][k][:70]),
                                  replay=dict(history=[c[:100] for c in h], cut_after=cut - n0, of=n1 - n0)))
                return found
    return found


def overwrite_scenarios(base, nocache, model, res, r, tier):
    """Storage::open(.., overwrite = true) over storage that already holds a core (src/storage/mod.rs): the new core must behave,
    and leave the same bytes, as on fresh storage — on every backend, whatever the old core left (a never-appended core: empty tree
    and data stores; a core of empty blocks: empty data store; an ordinary core). Oracle = the same history on a fresh disk."""
    found = []
    preludes = [
        ("never appended, other key", ["new W D altwriter"]),
        ("only empty blocks", ["new W D writer", "append W _ _", "append W _"]),
        ("ordinary core", ["new W D writer", "append W 6161 62", "append W 636363"]),
        ("cleared to nothing", ["new W D writer", "append W 6161", "clear W 0 1"]),
    ]
    hist = ["append W 7a", "append W 7979 78", "info W", "get W 0", "get W 1", "get W 2", "get W 3", "has W 0", "has W 3",
            "keypair W", "drop W", "open W D", "info W", "get W 1", "keypair W"]
    for name, pre in preludes:
        for (srv, dk) in [(base, "vec"), (base, "ram"), (base, "file"), (nocache, "file"), (model, "vec")]:
            res.count("overwrite-scenarios")
            fresh_ans, fresh_files = run_config(srv, ["new W D writer"] + hist, dk, "off")
            over_ans, over_files = run_config(srv, pre + ["drop W", "newover W D writer"] + hist, dk, "off")
            over_ans = over_ans[len(pre) + 1:]
            who = "model" if srv is model else "backend=%s" % dk
            if over_ans != fresh_ans:
                j = next(i for i in range(len(fresh_ans)) if over_ans[i] != fresh_ans[i])
                cmdj = (["newover W D writer"] + hist)[j]
                d = dict(key="overwrite:observation", what="%s, old storage '%s': after creating with overwrite, %s answered %s; on fresh storage %s" %
                         (who, name, cmdj, over_ans[j][:80], fresh_ans[j][:80]), replay=dict(prelude=pre, history=hist, backend=dk))
                (res.disagreements if srv is model else found).append(d if srv is not model else dict(cmd=cmdj, impl="fresh: " + fresh_ans[j][:100], model=over_ans[j][:100]))
                break
            if over_files != fresh_files:
                d = dict(key="overwrite:bytes", what="%s, old storage '%s': storage files after overwrite differ from those of the same history on fresh storage" % (who, name),
                         replay=dict(prelude=pre, history=hist, backend=dk))
                (res.disagreements if srv is model else found).append(d if srv is not model else dict(cmd="files", impl="fresh", model="differ after newover"))
                break
        if found:
            break
    return found


def main(tier, seed):
    res = Result("C14", tier, seed)
    res.gate = coq_gate("C14.v", clean=(tier == "thorough"))
    # the disk model (DiskFile.v, DiskFileFacts.v) is extracted with the rest of the model (Extract.v) and its theorems are quoted by
    # disk_file_crosscheck: compiled here in case props/C14.v does not import it
    rc, out = run("timeout 900 make DiskFileFacts.vo", cwd=COQ)
    if rc != 0:
        res.gate["ok"] = False
        res.gate["problems"].append("coq build of DiskFileFacts.vo failed:\n" + "\n".join(out.strip().split("\n")[-12:]))
    build_harness(); build_harness(cache_feature=True); build_model()
    r = random.Random(seed)
    scratch = tempfile.mkdtemp(prefix="hc_c14_")
    base = impl_server(cache=True, scratch=scratch)      # feature "cache" compiled in, used with cache=off/default/tiny
    nocache = impl_server(cache=False, scratch=scratch)  # feature not compiled
    model = model_server()
    try:
        res.violations.extend(overwrite_scenarios(base, nocache, model, res, r, tier))
        res.add_case(("overwrite",), True, sample="old core on the storage, then new core with overwrite=true: same as fresh storage")
        paged_memory_crosscheck(nocache, model, res, r, tier)
        res.add_case(("paged-memory",), True, sample="ramx <page size> <random write/read/del/truncate/len sequence>: crate vs PagedMem.v vs flat file")
        disk_file_crosscheck(nocache, model, res, r, tier)
        res.add_case(("disk-file",), True, sample="diskx <scratch dir> <random write/read/del/truncate/len/reopen sequence>: crate on a real file vs DiskFile.v (both del variants) vs flat file")
        if tier == "thorough":
            disk_capped_read_case(nocache, res)
        # a block larger than one OS read call delivers (tokio: 2 MiB) on every backend
        res.violations.extend(disk_big_read_probe(nocache))
        res.add_case(("big-block",), True, sample="one 3 MiB block appended and read back (also after a reopen) on the vec / ram / file backends")
        res.violations.extend(crash_recovery_on_disk(nocache, res, r, tier))
        res.add_case(("crash-recovery-on-disk",), True, sample="crash states of writer histories (incl. a 40000-block batch: oplog entry > 2 MiB) copied into real files: the disk backend recovers the same core as the instrumented backend")
        n = 10 if tier == "quick" else 200
        for k in range(n):
            # script: a writer history with reads, then replication to a replica driven by the baseline run
            script = ["new W D writer"]
            length = 0
            for _ in range(r.choice([4, 8, 12])):
                c = r.random()
                if c < 0.55:
                    kk = r.choice([1, 1, 2, 3])
                    script.append("append W " + " ".join(hexb(rnd_block(r)) for _ in range(kk))); length += kk
                elif c < 0.7 and length:
                    s = r.randrange(length); script.append("clear W %d %d" % (s, s + 1 + r.randrange(2)))
                elif c < 0.8:
                    script += ["drop W", "open W D"]
                else:
                    script.append("get W %d" % r.randrange(length + 1))
            script += ["info W"] + ["get W %d" % i for i in range(length + 1)]
            # requests a peer may send, valid or not (seek offsets inside and outside the requested sub-tree, arbitrary node
            # counts), after reads that warmed the node cache differently per configuration: the ANSWER (proof, none or error)
            # must not depend on what happens to be cached or flushed
            if length:
                total = 6 * length + 3
                for _ in range(r.choice([3, 6, 10])):
                    if r.random() < 0.5:
                        script.append("get W %d" % r.randrange(length))
                    b = "%d,%d" % (r.randrange(length), r.choice([0, 1, 2, 3]))
                    h = "-" if r.random() < 0.8 else "%d,%d" % (r.randrange(2 * length), r.choice([0, 1]))
                    sk = "-" if r.random() < 0.3 else str(r.randrange(total))
                    up = "-" if r.random() < 0.7 else "0,%d" % length
                    if h != "-" and r.random() < 0.5:
                        b = "-"
                    script.append("prove W %s %s %s %s" % (b, h, sk, up))
            # replication part: computed on the baseline (proof texts depend only on the history)
            base.cmd("reset"); base.cmd("disk D vec"); base.cmd("disk RD vec")
            for c in script:
                base.cmd(c + (" cache=off" if c.startswith("new ") or c.startswith("open ") else ""))
            rep = ["new R RD replica"]
            base.cmd("new R RD replica cache=off")
            if length:
                for i in r.sample(range(length), min(length, 3)):
                    rl = int(base.cmd("info R").split(" ")[1])
                    nodes = base.cmd("missing R %d" % i).split(" ")[1]
                    up = "%d,%d" % (rl, length - rl) if rl < length else "-"
                    cmd = "prove W %d,%s - - %s" % (i, nodes, up)
                    a = base.cmd(cmd)
                    rep.append("missing R %d" % i); rep.append(cmd)
                    if a.startswith("ok ") and a != "ok none":
                        rep.append("apply R " + a[3:]); base.cmd("apply R " + a[3:])
                        rep += ["get R %d" % i, "info R"]
                rep += ["drop R", "open R RD", "info R"] + ["get R %d" % i for i in range(length)]
                base.cmd("drop R"); base.cmd("open R RD cache=off")
                # the reopened replica (cold cache, nodes only in the store) is sent ALTERED proofs, which are refused in
                # every configuration and must leave no trace in any of them: the follow-up queries, a second altered
                # proof asking for no nodes, and the honest proof answer the same everywhere
                rl = int(base.cmd("info R").split(" ")[1])
                for i in [x for x in range(rl) if base.cmd("has R %d" % x) == "ok 0"][:3]:
                    nodes = base.cmd("missing R %d" % i).split(" ")[1]
                    cmd = "prove W %d,%s - - -" % (i, nodes)
                    a = base.cmd(cmd)
                    if not a.startswith("ok ") or a == "ok none":
                        continue
                    pr = parse_proof(a[3:])
                    if pr["block"] is None:
                        continue
                    bad = copy.deepcopy(pr); bad["block"]["value"] = flip_hex(bad["block"]["value"] or "00", r)
                    bad0 = copy.deepcopy(bad); bad0["block"]["nodes"] = []
                    seq = ["apply R " + proof_text(bad), "missing R %d" % i, "has R %d" % i, "apply R " + proof_text(bad0), "get R %d" % i,
                           "missing R %d" % i, "apply R " + a[3:], "get R %d" % i, "info R"]
                    for c in seq:
                        base.cmd(c)
                    rep += seq
                    res.count("altered-proofs-on-reopened-replica")
            full = script + rep
            ref_ans, ref_files = run_config(base, full, "vec", "off")
            configs = [(base, "vec", "default"), (base, "vec", "tiny"), (base, "ram", "off"), (base, "ram", "tiny"),
                       (base, "file", "off"), (base, "file", "default"), (nocache, "vec", "off"), (nocache, "file", "off")]
            for (srv, dk, cache) in configs:
                res.count("config:%s/%s/%s" % ("feature" if srv is base else "nofeature", dk, cache))
                ans, files = run_config(srv, full, dk, cache)
                if ans != ref_ans:
                    j = next(i for i in range(len(ans)) if ans[i] != ref_ans[i])
                    res.violations.append(dict(key="config:observation", what="backend=%s cache=%s: %s answered %s, on the instrumented backend without cache %s" %
                                               (dk, cache, full[j][:80], ans[j][:80], ref_ans[j][:80]),
                                               replay=dict(script=[c[:300] for c in full], backend=dk, cache=cache, step=j)))
                    break
                if files != ref_files:
                    res.violations.append(dict(key="config:bytes", what="backend=%s cache=%s: storage files differ from the instrumented backend without cache" % (dk, cache),
                                               replay=dict(script=[c[:300] for c in full], backend=dk, cache=cache)))
                    break
            # the model (no cache, flat files) against the baseline
            mans, mfiles = run_config(model, [c if not c.split(" ")[0] in ("append", "clear", "apply") else c for c in full], "vec", "off")
            # the model decides flushes natively here (F=n): bytes must match only when the cadence is the crate's
            if mans != ref_ans:
                j = next(i for i in range(len(mans)) if mans[i] != ref_ans[i])
                res.disagreements.append(dict(cmd=full[j][:100], impl=ref_ans[j][:200], model=mans[j][:200]))
            elif mfiles != ref_files:
                res.disagreements.append(dict(cmd="files after script", impl="files", model="differ (native flush cadence)"))
            res.add_case(tuple(c[:30] for c in full), True, sample=[c[:60] for c in full][:10] if k % 4 == 0 else None)
            if len(res.violations) >= 3:
                break
        # every length 1..48 (quick) / 1..200 (thorough): one batch, reopen (the cache is seeded with the roots of THAT length), reads of
        # the first blocks and of a sample: a cache entry that answers for a node it does not belong to shows at particular tree shapes only
        for L in (range(1, 49) if tier == "quick" else range(1, 201)):
            if len(res.violations) >= 3:
                break
            sc = ["new W D writer", "append W " + " ".join(hexb(bytes([97 + (i % 26)]) * (1 + i % 5)) for i in range(L)), "drop W", "open W D", "info W"]
            sc += ["get W %d" % i for i in sorted(set(list(range(min(L, 10))) + [r.randrange(L) for _ in range(4)] + [L - 1, L]))]
            ref_ans, ref_files = run_config(base, sc, "vec", "off")
            for (srv, dk, cache) in ([(base, "vec", "default"), (base, "vec", "tiny")] if tier == "quick" else
                                     [(base, "vec", "default"), (base, "vec", "tiny"), (base, "file", "default")]):
                res.count("length-sweep:%s/%s" % (dk, cache))
                ans, files = run_config(srv, sc, dk, cache)
                if ans != ref_ans or files != ref_files:
                    j = next((i for i in range(len(ans)) if ans[i] != ref_ans[i]), None)
                    res.violations.append(dict(key="config:length-sweep", what="%d blocks, reopened, backend=%s cache=%s: %s" % (L, dk, cache,
                                               ("%s answered %s, on the instrumented backend without cache %s" % (sc[j][:60], ans[j][:80], ref_ans[j][:80])) if j is not None
                                               else "storage files differ from the instrumented backend without cache"),
                                               replay=dict(script=[c[:300] for c in sc], backend=dk, cache=cache, step=j)))
                    break
        res.add_case(("length-sweep",), True, sample="every length 1..48: one batch, reopen, reads, on cache configurations vs none")
    finally:
        base.close(); nocache.close(); model.close()
        shutil.rmtree(scratch, ignore_errors=True)
    return res.finish(
        "theorems of coq/props/C14.v (node lookup through any cache that only holds stored nodes equals lookup without cache; the "
        "model step is a function of key pair and history only); the same histories run on {instrumented, random-access-memory, "
        "random-access-disk} x {no cache, default cache, 150-byte cache, cache feature not compiled}: observations and file bytes "
        "compared with the baseline and with the model",
        "seeded random writer histories followed by replication of up to three blocks and a replica reopen; 8 configurations each")


if __name__ == "__main__":
    sys.exit(main(sys.argv[1], seed_from_env()))

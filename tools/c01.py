"""C01 — log contents equal an append-only list model, across close and reopen."""
from hist import *

CORPUS = [
    [("append", [b"a", b"b"]), ("clear", 0, 1), ("reopen",)],
    [("append", [b"abc", b""]), ("clear", 0, 1), ("get", 1)],
    [("append", [b"x"]), ("reopen",), ("append", [b"y"]), ("reopen",), ("append", [b"z"]), ("reopen",)],
    [("append", [b"x"]), ("append", [b"y"]), ("reopen",), ("append", [b"z"]), ("append", [b"w"]), ("reopen",), ("get", 3)],
    [("append", [b"", b""]), ("reopen",), ("get", 0)],
    # D24: hole of a clear starting behind a held empty block beyond the truncated end of the data store
    [("append", [b"abc", b"de", b"", b""]), ("clear", 1, 2), ("get", 2), ("clear", 3, 4), ("get", 2), ("reopen",), ("get", 2)],
    [("append", [b"abc", b"de", b"", b"", b"gh"]), ("clear", 4, 5), ("clear", 1, 2), ("clear", 3, 4), ("get", 2), ("reopen",)],
]


def escalate(pair, h, res, r):
    """search around a history on which model and crate disagree: reopen after every prefix, every crash point,
    and continuations with equal-sized entries; returns violations found (with replays)"""
    from crash import enumerate_crashes
    found = []
    cands = []
    for k in range(1, len(h) + 1):
        cands.append(h[:k] + [("reopen",)] + h[k:] + [("reopen",)])
    for _ in range(40):
        tail = epoch_history(r)
        cands.append(h + tail)
        k = r.randrange(1, len(h) + 1)
        cands.append(h[:k] + tail)
    for cand in cands:
        res.count("escalation-histories")
        v, _ = find_violation(pair, cand, probe="full")
        if v is not None:
            small = shrink(pair, cand, v.key, probe="full")
            v2, _ = find_violation(pair, small, probe="full")
            v2 = v2 or v
            found.append(dict(key=v2.key, what=v2.what + " (found by escalation after a model/crate disagreement)",
                              replay=dict(history=[op_json(o) for o in small], failing_step=v2.at)))
            return found
    vs = enumerate_crashes(pair, h, res, torn=False, rnd=r)
    found.extend(vs[:1])
    return found


def word_history(r):
    """medium cores (30..200 blocks in a few batches) with clears whose ranges cross the 32-bit word borders of a bitfield
    page, end beyond the length or inside an earlier cleared region, placed right after a reopen (= a flushing call), and
    reopened again immediately: what a flush persisted of a clear is read back before anything else rewrites the page"""
    h, n = [], 0
    for _ in range(r.choice([1, 2, 3])):
        k = r.choice([30, 33, 64, 70, 100])
        h.append(("append", [bytes([r.randrange(256)]) * r.choice([0, 1, 2]) for _ in range(k)])); n += k
    for _ in range(r.choice([1, 2, 3])):
        if r.random() < 0.7:
            h.append(("reopen",))
        w = 32 * r.randrange(1, max(2, n // 32 + 1))
        s = max(0, min(n - 1, w - r.choice([1, 2, 12, 31])))
        e = r.choice([w + r.choice([0, 1, 8]), n + r.choice([0, 1, 40]), w + 32 + r.choice([0, 5])])
        if e <= s:
            e = s + 1
        h.append(("clear", s, e))
        if r.random() < 0.8:
            h.append(("reopen",))
        if r.random() < 0.4:
            h.append(("append", [b"z"] * r.choice([1, 3])))
            n += len(h[-1][1])
    h.append(("reopen",))
    return h


def main(tier, seed):
    res = Result("C01", tier, seed)
    res.gate = coq_gate("C01.v", clean=(tier == "thorough"))
    build_harness(); build_model()
    r = random.Random(seed)
    pair = Pair()
    try:
        hs = [("corpus", h) for h in CORPUS]
        ex = exhaustive_histories(3 if tier == "quick" else 4)
        if tier == "quick":
            r2 = random.Random(seed + 1)
            ex4 = exhaustive_histories(4)
            ex = ex + r2.sample(ex4, min(400, len(ex4)))
        hs += [("exhaustive", h) for h in ex]
        nrand = 60 if tier == "quick" else 1500
        for _ in range(nrand):
            hs.append(("random", random_history(r, r.choice([6, 12, 25, 60]))))
        for _ in range(120 if tier == "quick" else 3000):
            hs.append(("epochs", epoch_history(r)))
        for _ in range(40 if tier == "quick" else 1500):
            hs.append(("words", word_history(r)))
        # large cores: cross 8192 / 32768 / 65536 blocks
        big = [("append", [b"\x01"] * 9000), ("reopen",), ("get", 8191), ("get", 8999), ("clear", 4000, 4100),
               ("reopen",), ("append", [b"\x02"] * 25000), ("reopen",), ("get", 33999)]
        if tier == "thorough":
            big += [("append", [b"\x03"] * 33000), ("clear", 32760, 32780), ("reopen",), ("get", 66999), ("get", 32779)]
        hs.append(("large", big))
        # a core over three bitfield pages whose MIDDLE page is emptied: the hole a later clear punches into the data store is
        # bounded by the nearest held block below it, which then lives two pages further down
        pages = [("append", [b"\x04"] * 33000), ("append", [b"\x05"] * 33100), ("clear", 32768, 65536), ("get", 32767), ("get", 65536),
                 ("clear", 65536, 65540), ("get", 0), ("get", 100), ("get", 32767), ("get", 65540), ("get", 66099),
                 ("reopen",), ("get", 0), ("get", 32767), ("get", 65539), ("get", 65540), ("clear", 66000, 66050), ("get", 65999), ("get", 1)]
        hs.append(("large", pages))
        for kind, h in hs:
            res.count("hist:" + kind)
            for op in h:
                res.count("op:" + op[0])
            probe = "light" if kind == "large" else "full"
            v, runner = find_violation(pair, h, probe=probe)
            sig = (kind, tuple(op_text(o) for o in h)[:12], len(h))
            res.add_case(sig, nontrivial=len(h) >= 2,
                         sample=[op_text(o) for o in h][:10] if (res.evaluations % 211 == 0) else None)
            if v is not None:
                small = h if kind == "large" else shrink(pair, h, v.key, probe=probe)
                v2, _ = find_violation(pair, small, probe=probe)
                v2 = v2 or v
                res.violations.append(dict(key=v2.key, what=v2.what,
                                           replay=dict(history=[op_json(o) for o in small], failing_step=v2.at)))
                if len(res.violations) >= 8:
                    break
            if pair.disagreements and v is None and res.extra.get("escalations", 0) < 3:
                # the model and the crate differ on this history although the list oracle is satisfied: search around
                # it for an input on which the property itself fails (DESIGN 4.2 step 5)
                res.extra["escalations"] = res.extra.get("escalations", 0) + 1
                dis = pair.disagreements[:3]
                for ev in escalate(pair, h, res, r):
                    res.violations.append(ev)
                pair.disagreements = dis
            res.disagreements.extend(pair.disagreements[:3])
            pair.disagreements = []
        res.extra["commands_compared"] = pair.ncmp
    finally:
        pair.close()
    return res.finish(
        "theorems of coq/props/C01.v over the model; the model is tied to the crate by running every history on both "
        "(observations and storage journals compared) and the crate is judged against the list specification",
        "corpus + bounded-exhaustive histories over a 9-letter alphabet + seeded random histories + one large core; "
        "non-trivial = at least two operations; distinct by operation text")


def replay(path):
    j = json.load(open(path))
    ops = [op_from_json(o) for o in j["replay"]["history"]]
    build_harness(); build_model()
    pair = Pair()
    v, _ = find_violation(pair, ops)
    pair.close()
    print("violation: %s" % (v.what if v else None))
    return 1 if v else 0


if __name__ == "__main__":
    sys.exit(main(sys.argv[1], seed_from_env()))

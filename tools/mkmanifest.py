#!/usr/bin/env python3
"""Regenerates MANIFEST.json from the table below (kept in one place so it is always valid)."""
import json, os
HERE = os.path.dirname(os.path.dirname(os.path.abspath(__file__)))

CHECKS = {
 "C11": dict(
   text="Machine-checked theorems (coq/props/C11.v: codec_law for all eight wire types — encode succeeds, writes exactly "
        "the announced size, decode(encode x ++ r) = (x, r), every strict prefix decodes to an error, never a panic) over "
        "the Gallina model of the codecs; the crate's encoders/decoders are tied to the model on every run by differential "
        "execution over all varint boundaries, byte strings 0..300, node lists 0..8 and every strict prefix.",
   design_ref="DESIGN.md 6.11",
   note="Trusted: Coq kernel, extraction (ExtrOcamlBasic only), ocaml/driver.ml, harness, tools/c11.py. The crate's "
        "compact-encoding dependency is exercised, not verified. Hostile vector length prefixes (Vec::with_capacity) are "
        "outside C11 (only prefixes of valid encodings are quantified).",
   technique="Coq proof (round-trip/monotonicity lemmas) + correspondence check"),
}
NOT_YET = {}

def main():
    props = [json.loads(l) for l in open(os.path.join(HERE, "properties.jsonl"))]
    checks, na = [], []
    for p in props:
        pid = p["id"]
        if pid in CHECKS:
            c = CHECKS[pid]
            checks.append(dict(
                property_id=pid,
                quick_cmd="./check %s quick" % pid,
                thorough_cmd="./check %s thorough" % pid,
                evidence_file="/verif/evidence/%s.json" % pid,
                replay_cmd_template="./check %s replay {path}" % pid,
                engine="coq+correspondence",
                level_claimed=dict(category="proof", text=c["text"], design_ref=c["design_ref"]),
                level_note=c["note"],
                technique=c["technique"]))
        else:
            na.append(dict(property_id=pid, reason=NOT_YET.get(pid, "check not built yet in this round (planned: DESIGN.md section 6)")))
    m = dict(
        version=1,
        setup_cmd="./check setup",
        hooks=dict(guard="hypercore_verif", enable="none needed: the harness enters through the public API (Storage::open callback)",
                   baseline_off_cmd="cd /repo && cargo test --workspace --no-fail-fast --offline",
                   source_commits=[], add_only=True),
        engines=[dict(name="coq+correspondence", path="/verif/check",
                      serves_properties=[c["property_id"] for c in checks],
                      kind_free_text="Coq 8.16 proofs over a hand-written Gallina model (coq/), extracted to OCaml and run "
                                     "against /repo through a Rust harness (harness/), orchestrated by tools/*.py")],
        checks=checks,
        notes="See DESIGN.md. Every check rebuilds the harness against /repo's working tree, re-checks the Coq development "
              "and re-runs the correspondence.",
        not_applicable=na)
    json.dump(m, open(os.path.join(HERE, "MANIFEST.json"), "w"), indent=1)
    print("checks:", [c["property_id"] for c in checks], "not claimed:", [x["property_id"] for x in na])

if __name__ == "__main__":
    main()

#!/usr/bin/env python3
"""Regenerates MANIFEST.json from the table below (kept in one place so it is always valid)."""
import json, os
HERE = os.path.dirname(os.path.dirname(os.path.abspath(__file__)))

# category: "proof" only where pinned theorems exist in coq/props/<id>.v; the rest is claimed at the level
# the finished part supports and upgraded when its theorems land.
def C(category, text, design_ref, note, technique):
    return dict(category=category, text=text, design_ref=design_ref, note=note, technique=technique)

GLUE = ("Trusted: Coq kernel, extraction (ExtrOcamlBasic only), ocaml/driver.ml, harness/src/*.rs, tools/*.py; crypto primitives "
        "are parameters of the model, at run time both sides use the blake2/crc32fast/ed25519-dalek crates; dependency crates are "
        "modelled, not verified. ")

CHECKS = {
 "C01": C("exploration",
   "The executable Gallina model of the whole crate (coq/*.v) is run against the crate on every history (observations and storage "
   "journals compared) and the crate is judged against the append-only list specification: corpus, bounded-exhaustive histories over a "
   "9-letter alphabet, seeded random histories with reopen after arbitrary prefixes, and a core crossing 8192 and 32768 blocks. "
   "Refinement theorems (Refine.v) are in progress; until they are pinned the claim is exploration.",
   "DESIGN.md 6.1", GLUE, "correspondence check against the Coq model + list-model oracle"),
 "C02": C("fault_enumeration",
   "Every crash point of every generated history: all prefixes of the journal of mutating storage operations, plus singleton and "
   "co-singleton subsets of each unordered flush group; each crash state is recovered on the crate and on the Coq model, judged by the "
   "before-or-after oracle and continued (append/clear, reopen, read everything).",
   "DESIGN.md 6.2", GLUE, "crash-point enumeration on implementation and Coq model"),
 "C03": C("exploration",
   "Replication worlds (writer growth, clears, replica reopen, full and partial upgrades, block/hash/seek requests built from the "
   "replica's own missing-node query) run on crate and model; oracle: honest proof accepted, replica blocks byte-identical, lengths.",
   "DESIGN.md 6.3", GLUE, "correspondence check + replication oracle"),
 "C04": C("exploration",
   "Every single-field alteration of honest proofs plus systematic forgeries applied to copies of reachable replica states on crate "
   "and model; oracle: refusal leaves all observations and all four files unchanged, acceptance leaves only writer data.",
   "DESIGN.md 6.4", GLUE, "alteration enumeration + correspondence"),
 "C05": C("exploration",
   "Every node in the tree store, in oplog entries and in served proofs, header root hash and every stored/served signature compared "
   "with a reference computed by structural recursion from the blocks (independent Python implementation of the v10 scheme).",
   "DESIGN.md 6.5", GLUE, "reference-tree oracle + correspondence"),
 "C06": C("exploration",
   "Independent JS-layout reader applied to the raw files at every operation boundary; synthetic JS-valid oplogs (either slot, all "
   "bit states, entries with partial flags, trailing garbage) opened by the crate; five-step interop scenario vs certified hashes.",
   "DESIGN.md 6.6", GLUE, "independent reader/writer oracle + golden hashes + correspondence"),
 "C07": C("fault_enumeration",
   "As C02, plus every proper byte prefix of the write in progress (all prefixes for writes up to 64 bytes; framing boundaries, sector "
   "boundaries and seeded cuts for longer ones).", "DESIGN.md 6.7", GLUE, "torn-write enumeration on implementation and Coq model"),
 "C08": C("exploration",
   "has() on every index below the length and on page boundaries, contiguous length against its definition, for a writer crossing "
   "8192/32768 blocks (65536 in the thorough tier) with page-straddling clears, a replica holding blocks pages apart, reopen and a "
   "crash inside a flush.", "DESIGN.md 6.8", GLUE, "exhaustive has() sweep + correspondence"),
 "C09": C("exploration",
   "Boundary request tuples on six core shapes, structurally arbitrary proofs and the C04 alteration set, under catch_unwind and a "
   "watchdog in a build with overflow checks; the model has explicit Panic/OutOfFuel outcomes at every arithmetic, index and loop site "
   "and must agree.", "DESIGN.md 6.9", GLUE, "hostile-input enumeration + correspondence"),
 "C10": C("fault_enumeration",
   "One injected I/O error at every storage operation (reads, length queries, writes, deletes, truncates; during open too) of every "
   "history: the call must answer an error, reopening must show before-or-after with everything earlier intact (also on the model).",
   "DESIGN.md 6.10", GLUE, "fault enumeration"),
 "C11": C("proof",
   "Machine-checked theorems (coq/props/C11.v: codec_law for all eight wire types — encode succeeds, writes exactly "
   "the announced size, decode(encode x ++ r) = (x, r), every strict prefix decodes to an error, never a panic) over "
   "the Gallina model of the codecs; the crate's encoders/decoders are tied to the model on every run by differential "
   "execution over all varint boundaries, byte strings 0..300, node lists 0..8 and every strict prefix.",
   "DESIGN.md 6.11",
   GLUE + "Hostile vector length prefixes (Vec::with_capacity) are outside C11 (only prefixes of valid encodings are quantified).",
   "Coq proof (round-trip/monotonicity lemmas) + correspondence check"),
 "C12": C("fault_enumeration",
   "Histories with make_read_only at a random position: raw bytes of all four files searched for every 16-byte window of the secret, "
   "second call / append / reopen / open-with-key checks with empty journals, and all crash points inside make_read_only.",
   "DESIGN.md 6.12", GLUE, "crash enumeration + byte search + correspondence"),
 "C13": C("exploration",
   "Events drained after every call from 1-3 subscribers on writers and replicas (accepted and refused proofs, gets of held/missing "
   "indices, empty batches) compared with the event specification and with the model.",
   "DESIGN.md 6.13", GLUE, "event oracle + correspondence"),
 "C14": C("exploration",
   "The same histories (writer + replication + reopen) on {instrumented, random-access-memory, random-access-disk} x {no cache, default, "
   "150-byte cache, cache feature not compiled}: observations and file bytes compared with the baseline and the model.",
   "DESIGN.md 6.14", GLUE, "configuration sweep + correspondence"),
 "C15": C("exploration",
   "The real SharedCore under a deterministic scheduler with a preemption point at every storage operation and lock acquisition "
   "(2-4 tasks x 1-4 calls), judged by a linearizability checker; the method shapes of shared_core.rs are re-derived on every run.",
   "DESIGN.md 6.15", GLUE, "schedule exploration + linearizability checker"),
}
NOT_YET = {}

def main():
    props = [json.loads(l) for l in open(os.path.join(HERE, "properties.jsonl"))]
    checks, na = [], []
    for p in props:
        pid = p["id"]
        if pid in CHECKS:
            c = CHECKS[pid]
            checks.append(dict(
                property_id=pid,
                quick_cmd="./check %s quick" % pid,
                thorough_cmd="./check %s thorough" % pid,
                evidence_file="/verif/evidence/%s.json" % pid,
                replay_cmd_template="./check %s replay {path}" % pid,
                engine="coq+correspondence",
                level_claimed=dict(category=c["category"], text=c["text"], design_ref=c["design_ref"]),
                level_note=c["note"],
                technique=c["technique"]))
        else:
            na.append(dict(property_id=pid, reason=NOT_YET.get(pid, "check not built yet in this round (planned: DESIGN.md section 6)")))
    m = dict(
        version=1,
        setup_cmd="./check setup",
        hooks=dict(guard="hypercore_verif", enable="none needed: the harness enters through the public API (Storage::open callback)",
                   baseline_off_cmd="cd /repo && cargo test --workspace --no-fail-fast --offline",
                   source_commits=[], add_only=True),
        engines=[dict(name="coq+correspondence", path="/verif/check",
                      serves_properties=[c["property_id"] for c in checks],
                      kind_free_text="Coq 8.16 proofs over a hand-written Gallina model (coq/), extracted to OCaml and run "
                                     "against /repo through a Rust harness (harness/), orchestrated by tools/*.py")],
        checks=checks,
        notes="See DESIGN.md. Every check rebuilds the harness against /repo's working tree, re-checks the Coq development "
              "and re-runs the correspondence.",
        not_applicable=na)
    json.dump(m, open(os.path.join(HERE, "MANIFEST.json"), "w"), indent=1)
    print("checks:", [c["property_id"] for c in checks], "not claimed:", [x["property_id"] for x in na])

if __name__ == "__main__":
    main()

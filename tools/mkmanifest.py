#!/usr/bin/env python3
"""Regenerates MANIFEST.json from the table below (kept in one place so it is always valid)."""
import json, os
HERE = os.path.dirname(os.path.dirname(os.path.abspath(__file__)))

# category: "proof" only where pinned theorems exist in coq/props/<id>.v; the rest is claimed at the level
# the finished part supports and upgraded when its theorems land.
def C(category, text, design_ref, note, technique):
    return dict(category=category, text=text, design_ref=design_ref, note=note, technique=technique)

GLUE = ("Trusted: Coq kernel (vm_compute in Examples and tie lemmas; no native_compute), extraction (ExtrOcamlBasic only), "
        "ocaml/driver.ml, harness/src/*.rs, tools/*.py incl. the source-to-Coq translators srcconsts.py / srccodec.py / srcorder.py / srcfns.py / srchash.py / srcshape.py; "
        "axioms: none (Print Assumptions of every pinned theorem is closed; coqchk -o in the thorough tier); crypto primitives are "
        "parameters of the model, at run time both sides use the blake2/crc32fast/ed25519-dalek crates; dependency crates "
        "(flat-tree, compact-encoding, random-access-memory, random-access-disk over an assumed POSIX file, async-broadcast: modelled in Coq and run against the crates; "
        "moka, async-lock: modelled abstractly) are modelled, not verified. ")

CHECKS = {
 "C01": C("proof",
   "Theorems coq/props/C01.v, from the creation of a writer and for EVERY sequence of flush decisions. (A) Histories over {append, batch append (empty batches and empty blocks included), get, has, info, drop-and-reopen} observe exactly the append-only list model; reopening changes no observation and re-establishes the disk invariant (oplog file = header slots + entries, tree store, bitfield store, data store), also with unflushed entries pending (replay). (B) Histories over {append, batch append, clear(start<end, start<length, end possibly beyond the length), get, has, info} observe exactly the list-with-cleared-set model: nothing for cleared or never-written indices, clearing affects no block outside its range, contiguous length = smallest index not held. Hypotheses are satisfiable and exhibited by Examples: 32-byte hashes that are never all zero (the crate treats an all-zero hash as a blank node; the model fails without it), 64-byte signatures, 32-bit CRC, totals below 2^64; the only other outcome allowed is the crate's own panic for an oplog entry above 2^30 bytes. The proof attempt of (B) refuted the statement on the unrepaired crate (clear behind a stranded empty block failed); the witness was replayed on the crate and repaired (finding D24). NOT proved: histories mixing clears WITH reopen. Every run executes the model against the crate (observations and storage journals compared operation by operation) under the list-model oracle: corpus, bounded-exhaustive histories, random histories with clears and reopen after arbitrary prefixes, epoch histories, a core crossing 8192 and 32768 blocks.",
   "DESIGN.md 6.1", GLUE, "Coq proof (refinement invariants for append/reopen and append/clear; list-model equality of observations) + correspondence check + list-model oracle"),
 "C02": C("proof",
   "Partial proof. Theorems coq/props/C02.v, at the level of the oplog file content and Oplog::open, assuming only that the CRC fits 32 bits: from any stable state (both header slots valid, or one invalid; entries carrying the current entry bit), for an append of one entry, for a flush (header into the non-current slot, then truncate) and for make_read_only (slot, truncate, slot, truncate), EVERY cut point of the operation's storage journal reopens to exactly the (header, entries) before the operation or exactly the one after it, and the final state is stable again, so the argument iterates over any history; entries of the previous epoch are never replayed and are cut off by open; in make_read_only the entries are gone before the second slot is rewritten (repaired defect D20, with the counterfactual); a crash during creation reopens as empty storage. With C08_replay_exact (bitfield and contiguous length replayed over any mixture of old and new pages) and C01_append_journal_order (data, then entry, then flush group, then header, then truncate). NOT proved: the tree and data stores and the composition with Hypercore::new over all four stores. That composition is decided on every run: every crash point (all journal prefixes, singleton and co-singleton subsets of the unordered flush group) of every generated history is recovered on the crate and on the model, judged by the before-or-after oracle and continued (append/clear, reopen, read everything).",
   "DESIGN.md 6.2", GLUE, "Coq proof (write-ahead-log argument on the oplog content) + crash-point enumeration on crate and model"),
 "C03": C("proof",
   "Partial proof. Theorems coq/props/C03.v: every node of every proof the writer creates (block, hash, seek, upgrade, additional nodes) was read from the writer's own tree, with the tree's signature and fork (no fabrication); create_proof returns None exactly when the block is not held; for block requests whose node count comes from the replica's own missing-node query, on a replica no longer than the writer whose stored nodes carry the writer's hashes, the writer creates the proof and the replica's verifier accepts it with a commitable changeset containing the leaf and every sibling; honest inputs recompute the honest root; the missing-node count ends on a stored node or at the head; for an upgrade-only request from an empty replica over the whole log prover and verifier run in lockstep over the full roots and the verifier accepts when the signature verifies. NOT proved: upgrades of a non-empty replica, partial upgrades with additional nodes, block+upgrade, hash and seek sections, and the storage side of verify_and_apply_proof (byte offset of the stored block, replica reopen). All request classes are decided on every run by replication worlds (writer growth, clears, full and partial upgrades, block/hash/seek requests built from the replica's own missing-node query, replica reopen) on crate and model under the oracle that every honest proof is accepted and every held block is byte-identical to the writer's.",
   "DESIGN.md 6.3", GLUE, "Coq proof (prover/verifier agreement for block and upgrade-only requests, no fabrication) + replication worlds with correspondence"),
 "C04": C("proof",
   "Theorems coq/props/C04.v, with NO assumption about the hash or signature functions (reduction style): if the verifier's climb ends in a hash equal to the trusted one (stored node or signed root), then the block VALUE it accepted is the writer's block, every sibling hash on the path is the writer's, a hash section's bottom hash is the writer's \u2014 or two different byte strings with the same BLAKE2b hash are exhibited; an accepted upgrade signature covers exactly (hash of the root list, length, fork) and equal signed messages bind length, fork and the root list (or a collision); structure of what verify_proof checked whenever it accepts. Sizes of the bottom nodes of hash/seek sections are bound only in sum (proved: parent_hash_length_split) \u2014 the property's carve-out. Partial: composition into the replica invariant across storage (byte offsets, files), refusal-is-a-no-op at the Core level (CoreFacts.v, in progress) and Ed25519 unforgeability are not proved; every single-field alteration and systematic forgery is applied to reachable replica states on crate and model on every run.",
   "DESIGN.md 6.4", GLUE, "Coq proof (hash-chain reduction to explicit collisions) + alteration enumeration with correspondence"),
 "C05": C("proof",
   "Theorems coq/props/C05.v, for every block sequence and every cutting into batches: the incremental changeset (binary-increment carry chain of append_root) yields exactly the roots of the reference tree defined by structural recursion (v10 leaf/parent hash layouts, flat in-order numbering), the right length and byte length, and EVERY node it pushes (hence every node persisted in an oplog entry or the tree store, or served in a proof) is the reference node at its flat index; the signature is the signature over (tree namespace, hash of the reference roots, length, fork) and verifies under the satisfiable hypothesis verify(pk(sk), m, sign(sk, m)); reference node sizes are block-size sums; no overflow panic when the total size fits u64. Partial: that flush, reopen and replay carry these nodes to and from storage unchanged is covered by the C06 round-trip theorems and, on every run, by the independent reference-tree oracle (Python hashlib BLAKE2b; Ed25519 verification by ed25519-dalek called directly) over raw tree/oplog bytes and every node of served proofs.",
   "DESIGN.md 6.5", GLUE, "Coq proof (binary-increment invariant: incremental tree = recursive reference) + reference-tree oracle"),
 "C06": C("proof",
   "Theorems coq/props/C06.v: header, oplog entry (all eight combinations of the flag bits 2/4/8), CRC frame (header bit, partial bit, 30-bit length) and 40-byte tree node decode back to themselves with nothing left over; a sequence of well-formed frames carrying the current header bit is scanned completely with the fuel Oplog::open uses (termination), stopping at the first missing/torn/other-bit frame; trailing partial entries, and only those, are dropped; the slot rule (a flush writes the non-current slot, which becomes current). Page (de)serialisation is in C08. Partial: 'reader of the four files = API state in every reachable state' is decided on every run by the independent JS-layout reader (tools/jsfmt.py) at every operation boundary, by synthetic JS-valid oplogs opened by the crate, and by the certified hashes of the five-step interop scenario; user_data/reorgs are outside the model.",
   "DESIGN.md 6.6", GLUE, "Coq proof (codec round trips, scan termination) + independent reader/writer + golden hashes"),
 "C07": C("proof",
   "Partial proof. Theorems coq/props/C07.v at the level of the oplog file content and Oplog::open: a log entry torn at any byte is no frame and is cut off by open, with no checksum argument at all; a header slot write torn at any byte reopens to the state before, or to the state after (whole frame arrived, padding missing), or two different byte strings with the same CRC-32 are exhibited (for t >= 8 of equal length) \u2014 the honest escape clause of a 32-bit checksum; likewise for both slot writes of make_read_only; torn creation reopens as empty storage; a torn write followed by its remainder equals the whole write. Side condition stated in the theorems: a tear inside the 4-byte CRC field of a slot that was already invalid needs that slot to be dead (proved for the zero-filled slot of a fresh log; Crash.v has the counterexample for an arbitrary invalid slot, which needs two torn crashes in a row \u2014 DESIGN 12.5). NOT proved: torn writes to the tree, bitfield and data stores (re-derived by replay: C08_replay_exact). On every run every write of every generated history is torn at every byte (writes up to 64 bytes) or at framing/sector boundaries and seeded cuts and recovered on crate and model under the before-or-after oracle.",
   "DESIGN.md 6.7", GLUE, "Coq proof (torn frame = no frame; before/after/CRC-collision trichotomy) + torn-write enumeration"),
 "C08": C("proof",
   "Theorems coq/props/C08.v, for unbounded indices (any number of 32768-bit pages): has() after set_range/apply is exactly the range semantics; every page whose content changed is dirty and clean pages serialise unchanged (a flush writes every changed page); page bytes <-> bits exact at every page index and reload of pages exact; the contiguous-length hint maintained by the crate's incremental rule IS the smallest index not held after every update (including termination of the skip loop within its fuel, by a pigeonhole argument); replaying the oplog entries over ANY mixture of old and new bitfield pages yields the exact bitfield and the exact contiguous length (crash recovery). Partial: that a crash leaves such a mixture and that no bit at or beyond the length is ever set are established by the correspondence runs (has() swept over every index of cores crossing 8192/32768/65536 blocks, sparse replica, crash inside a flush).",
   "DESIGN.md 6.8", GLUE, "Coq proof (range semantics, pigeonhole, replay invariant) + exhaustive has() sweep"),
 "C09": C("proof",
   "Partial proof. Theorems coq/props/C09.v over the model in which every u64 overflow, index error, unwrap and loop of the crate's proof code is an explicit Panic/OutOfFuel outcome: for numeric fields below 2^40 and node lists of any length, verification of every proof without an upgrade section returns a value or an error against every tree and store (the root index reached stays below 2^42, so the store offset cannot overflow); verification with an upgrade section never panics when the byte lengths carried by its node lists cannot overflow u64 in sum (lists up to 2^20 nodes); creating a block proof returns for every index and node count. NOT proved: termination (fuel) of the upgrade loops for arbitrary hostile lists (only under the size conditions of NoPanic.v), and proof creation for hash/seek/upgrade requests. Those, and the Rust-only panics the model cannot contain (allocation, slices inside dependencies), are decided on every run by boundary request tuples on six core shapes, structurally arbitrary proofs and the C04 alteration set under catch_unwind + watchdog in a build with overflow checks, with the model required to agree.",
   "DESIGN.md 6.9", GLUE, "Coq proof (totality of the verifier, explicit panic sites) + hostile-input enumeration with correspondence"),
 "C10": C("proof",
   "Partial proof. Theorems coq/props/C10.v: a flush in which storage operation k fails reports the I/O error, leaves core and events untouched and leaves on disk exactly the first k operations \u2014 the cut of the fault-free journal at k; for every operation of the core every prefix of what it writes is a well-defined disk from which the rest leads to the final disk. So every state a failing write/delete/truncate can leave is one of the crash states whose recovery C02, C07 and C08 treat. NOT expressible in the model: that the crate propagates every Result with `?` rather than dropping or unwrapping it, and failing reads / length queries. These are decided on every run by fault enumeration: one I/O error injected at EVERY storage operation (reads and length queries included, during open too) of every generated history; the call must answer an error (never success, a panic or a hang) and reopening must show the before-or-after state with everything earlier intact, also compared with the model's recovery.",
   "DESIGN.md 6.10", GLUE, "Coq proof (fault state = journal cut) + exhaustive fault enumeration"),
 "C11": C("proof",
   "Machine-checked theorems (coq/props/C11.v: codec_law for all eight wire types — encode succeeds, writes exactly "
   "the announced size, decode(encode x ++ r) = (x, r), every strict prefix decodes to an error, never a panic) over "
   "the Gallina model of the codecs; the crate's encoders/decoders are tied to the model on every run by differential "
   "execution over all varint boundaries, byte strings 0..300, node lists 0..8 and every strict prefix.",
   "DESIGN.md 6.11",
   GLUE + "Hostile vector length prefixes (Vec::with_capacity) are outside C11 (only prefixes of valid encodings are quantified).",
   "Coq proof (round-trip/monotonicity lemmas) + correspondence check"),
 "C12": C("proof",
   "Theorems coq/props/C12.v, for every state: append without secret key returns NotWritable and changes nothing at all (same core, same disk, no storage operation, no event); make_read_only on a core without secret returns false and changes nothing; on a writer it erases the secret from key pair and header whatever the outcome; secret-freedom as NON-INTERFERENCE: the complete outcome of make_read_only (new core, every byte of the four files, journal, events, result) is identical for any two secret keys, so no byte it writes depends on the key; the rewritten header encodes the key pair as public key + zero byte. Partial: crash points inside make_read_only, reopen read-only, open-with-key rejection and the absence of the key in bytes written earlier are decided on every run by tools/c12.py (all crash points recovered; raw bytes of all four files searched for every 16-byte window of the secret). The oplog-level crash theorems (Crash.v) are in progress.",
   "DESIGN.md 6.12", GLUE, "Coq proof (no-op and non-interference theorems) + crash enumeration + byte search"),
 "C13": C("proof",
   "Theorems coq/props/C13.v, for every state and input: a successful non-empty append sends Upgrade then Have(old length, batch size); an accepted proof sends Upgrade iff it carried an upgrade section, then Have(index,1) iff it carried a block; get of an index not held sends exactly one Get(index), returns None and touches nothing; clear, missing_nodes, make_read_only send nothing; every refused, failed or empty call sends nothing; create_proof sends only the Get of its internal read of a block that is not held (interpretive decision of DESIGN 5.2). Partial by nature: identical delivery to every subscriber is async_broadcast behaviour, covered with 1-3 subscribers and < 32 undrained events on every run, where the crate's event stream is compared with the model's and with the event specification.",
   "DESIGN.md 6.13", GLUE, "Coq proof (exact event list of every operation) + event oracle with correspondence"),
 "C14": C("proof",
   "Theorems coq/props/C14.v: a lookup through the node cache (consulted before the unflushed map and the store) returns exactly "
   "what the cache-less lookup returns, in both lookup modes, for every cache content produced by the crate's insertion rule (insert "
   "what was just looked up), under ANY eviction (sub-map), and across updates that keep nodes immutable per index. Partial: the "
   "lift from single lookups to whole operations, the equivalence of the three storage backends (file semantics of Storage.v), moka "
   "and the OS are not proved; they are covered on every run by the sweep {instrumented, random-access-memory, random-access-disk} "
   "x {no cache, default, 150-byte cache, feature not compiled} comparing observations and file bytes with the baseline and the model.",
   "DESIGN.md 6.14", GLUE, "Coq proof (cache-validity invariant) + configuration sweep"),
 "C15": C("proof",
   "Theorems coq/props/C15.v, for any number of tasks, calls, micro-steps and EVERY schedule: with each method a single critical section of one mutex (one micro-step per storage operation), shared state and all results equal the atomic execution of the calls in completion order; per-task results and program order preserved; at most the lock holder is ever inside a method (no call observes a partially applied operation); the order respects real time; append results of an append-only log are gap-free increasing lengths. The premise 'every trait method of SharedCore is one critical section' is re-derived from src/replication/shared_core.rs on every run (SharedShape.v, closed by vm_compute). Partial by nature: fairness/wake-ups of async_lock::Mutex and the executor are run-time behaviour, exercised by the deterministic-scheduler runs (preemption at every storage operation and lock acquisition) judged by a linearizability checker.",
   "DESIGN.md 6.15", GLUE, "Coq proof (mutex serializability) + source-derived shape obligation + schedule exploration"),
}
NOT_YET = {}

def main():
    import sys
    sys.path.insert(0, os.path.dirname(os.path.abspath(__file__)))
    import manifest_texts
    for pid, t in manifest_texts.TEXT.items():
        CHECKS[pid]["text"] = t
    for pid, t in manifest_texts.TECH.items():
        CHECKS[pid]["technique"] = t
    props = [json.loads(l) for l in open(os.path.join(HERE, "properties.jsonl"))]
    checks, na = [], []
    for p in props:
        pid = p["id"]
        if pid in CHECKS:
            c = CHECKS[pid]
            checks.append(dict(
                property_id=pid,
                quick_cmd="./check %s quick" % pid,
                thorough_cmd="./check %s thorough" % pid,
                evidence_file="/verif/evidence/%s.json" % pid,
                replay_cmd_template="./check %s replay {path}" % pid,
                engine="coq+correspondence",
                level_claimed=dict(category=c["category"], text=c["text"], design_ref=c["design_ref"]),
                level_note=c["note"],
                technique=c["technique"]))
        else:
            na.append(dict(property_id=pid, reason=NOT_YET.get(pid, "check not built yet in this round (planned: DESIGN.md section 6)")))
    m = dict(
        version=1,
        setup_cmd="./check setup",
        hooks=dict(guard="verif-hooks",
                   enable="cargo feature `verif-hooks` of /repo (off by default), switched on by /verif/harness/Cargo.toml: it compiles "
                          "src/bitfield/verif_probe.rs, a textual driver for the crate-private FixedBitfield / DynamicBitfield (command "
                          "`bwx` of the harness, check C08). Everything else enters through the public API (Storage::open callback).",
                   baseline_off_cmd="cd /repo && cargo test --workspace --no-fail-fast --offline",
                   source_commits=["a397d08"], add_only=True),
        engines=[dict(name="coq+correspondence", path="/verif/check",
                      serves_properties=[c["property_id"] for c in checks],
                      kind_free_text="Coq 8.16 proofs over a hand-written Gallina model (coq/), extracted to OCaml and run "
                                     "against /repo through a Rust harness (harness/), orchestrated by tools/*.py")],
        checks=checks,
        notes="See DESIGN.md. Every check rebuilds the harness against /repo's working tree, re-checks the Coq development "
              "and re-runs the correspondence.",
        not_applicable=na)
    json.dump(m, open(os.path.join(HERE, "MANIFEST.json"), "w"), indent=1)
    print("checks:", [c["property_id"] for c in checks], "not claimed:", [x["property_id"] for x in na])

if __name__ == "__main__":
    main()

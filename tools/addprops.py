#!/usr/bin/env python3
"""addprops.py PROPFILE "IMPORT LINE" name=lemma ... — appends pinned theorems to an existing coq/props file: the statement
of each is the exact type Coq prints for the lemma (so the pinned text is what the kernel checked), closed by `exact`.
The import line is inserted after the file's existing imports; `Print Assumptions` lines are added at the end."""
import subprocess, sys, re, os
ROOT = os.environ.get("ADDPROPS_ROOT", "/verif")
prop, imports = sys.argv[1], sys.argv[2]
pairs = [a.split("=") for a in sys.argv[3:]]
path = ROOT + "/coq/props/" + prop
src = open(path).read()
old_imports = "\n".join(l for l in src.split("\n") if l.startswith("From HC Require") or l.startswith("From Coq Require"))
# same order as in the file: the new import comes first
q = "%s\n%s\nSet Printing Width 110.\n" % (imports, old_imports) + "".join("Check %s.\n" % l for _, l in pairs)
open("/tmp/addprops_q.v", "w").write(q)
r = subprocess.run("cd %s/coq && coqc -Q . HC /tmp/addprops_q.v" % ROOT, shell=True, capture_output=True, text=True)
assert r.returncode == 0, r.stdout + r.stderr
blocks = re.split(r"\n(?=\S)", r.stdout.strip())
types = {}
for b in blocks:
    m = re.match(r"(\S+)\n?\s+: (.*)", b, re.S)
    if m:
        types[m.group(1)] = m.group(2)
new = ""
for name, lemma in pairs:
    assert ("Theorem %s " % name) not in src, name + " already pinned"
    t = types[lemma]
    new += "Theorem %s :\n  %s.\nProof. exact %s. Qed.\n\n" % (name, t.replace("\n", "\n  "), lemma)
i = src.index("Print Assumptions")
src = src[:i] + new + src[i:]
if imports not in src:
    lines = src.split("\n")
    last = max(k for k, l in enumerate(lines) if l.startswith("From HC Require") or l.startswith("From Coq Require"))
    # the import may span several lines: find the terminating '.'
    while not lines[last].rstrip().endswith("."):
        last += 1
    first = min(k for k, l in enumerate(lines) if l.startswith("From HC Require") or l.startswith("From Coq Require"))
    lines.insert(first, imports)   # before the existing imports: their names keep shadowing the new ones
    src = "\n".join(lines)
src = src.rstrip("\n") + "\n" + "".join("Print Assumptions %s.\n" % n for n, _ in pairs)
open(path, "w").write(src)
print("added", len(pairs), "theorems to", prop)

"""C06 — storage files are readable and writable per the JavaScript on-disk layout."""
from hist import *
import jsfmt, re
from repl import World, parse_proof


def golden_hashes():
    src = open(os.path.join(REPO, "tests", "js_interop.rs")).read()
    out = {}
    for m in re.finditer(r"fn step_(\d)_hash\(\).*?\{(.*?)\n\}", src, re.S):
        step = int(m.group(1))
        d = {}
        for f in ("bitfield", "data", "oplog", "tree"):
            mm = re.search(f + r":\s*(None|Some\(\"([0-9A-F]+)\")", m.group(2))
            d[f] = mm.group(2) if mm and mm.group(2) else None
        out[step] = d
    return out


def file_hashes(files_ans):
    tree, data, bitf, oplog = jsfmt.parse_files(files_ans)
    h = lambda b: hashlib.sha256(b).hexdigest().upper() if b else None
    return dict(bitfield=h(bitf), data=h(data), oplog=h(oplog), tree=h(tree))


def golden_scenario(pair, res):
    """the five steps of tests/js_interop.rs, all run by this crate; file hashes after every step"""
    g = golden_hashes()
    p = pair
    p.reset(); p.raw("disk D")
    steps = {
        1: ["new W D writer", "drop W"],
        2: ["open W D", "append W 48656c6c6f 576f726c64", "drop W"],
        3: ["open W D", "get W 0", "get W 1", "append W 6669727374", "append W 7365636f6e64 7468697264",
            "append W " + "61" * (4096 * 3), "append W", "get W 2", "get W 5", "drop W"],
        4: ["open W D"] + ["append W %02x" % i for i in range(5)] + ["drop W"],
        5: ["open W D", "clear W 5 6", "clear W 7 9", "info W", "get W 5", "get W 4", "drop W"],
    }
    found = []
    for s in range(1, 6):
        for c in steps[s]:
            p.do(c)
        for side, srv in (("implementation", p.impl), ("model", p.model)):
            fh = file_hashes(srv.cmd("files D"))
            res.count("golden-files-compared", 4)
            if fh != g.get(s):
                diff = [k for k in fh if fh[k] != g[s][k]]
                if side == "implementation":
                    found.append(dict(key="golden:step%d" % s, what="after step %d the %s file(s) hash differently from the values certified against the JavaScript implementation" % (s, diff),
                                      replay=dict(step=s, got=fh, golden=g.get(s))))
                else:
                    pair.disagreements.append(dict(cmd="golden step %d" % s, impl="golden", model=str(diff)))
    return found


def reader_check(pair, core, disk, label):
    """the JS-layout reader applied to the raw files must reconstruct what the API reports"""
    p = pair
    tree, data, bitf, oplog = jsfmt.parse_files(p.impl.cmd("files " + disk))
    st = jsfmt.read_storage(tree, data, bitf, oplog)
    if st is None:
        raise Violation("reader:unreadable", "%s: files not readable by the JS-layout rules" % label, label)
    ia, _ = p.do("info " + core)
    t = ia.split(" ")
    api = (int(t[1]), int(t[2]), int(t[3]), t[5] == "1")
    got = (st["length"], st["byte_length"], st["contiguous_actual"], st["writeable"])
    if st["byte_length"] is None:
        got = (st["length"], api[1], st["contiguous_actual"], st["writeable"])  # replica: sizes not all known
    if api != got:
        raise Violation("reader:info", "%s: API reports (length, byte length, contiguous, writeable) = %s, the files say %s" % (label, api, got), label)
    n = st["length"]
    edges = [i for e in range(32768, n + 1, 32768) for i in range(e - 6, e + 6) if i < n]
    for i in list(range(min(n, 50))) + edges + [n - 1, n, n + 1]:
        if i < 0:
            continue
        a, _ = p.do("has %s %d" % (core, i))
        if (a == "ok 1") != (i in st["held"] and i < n or i in st["held"]):
            raise Violation("reader:has", "%s: has(%d)=%s but the files say held=%s" % (label, i, a, i in st["held"]), label)
        b, _ = p.do("get %s %d" % (core, i))
        if b.startswith("ok some"):
            if i not in st["blocks"] or b != "ok some " + hexb(st["blocks"][i]):
                raise Violation("reader:block", "%s: get(%d)=%s, the files give %s" % (label, i, b[:50], hexb(st["blocks"].get(i, b""))[:40]), label)


def synthetic(pair, r, res):
    """JS-valid oplogs produced by the reference encoder: header in either slot, 0..n entries with any
    partial flags (trailing partial entries = unfinished atomic batch), opened by the crate"""
    found = []
    p = pair
    pub = bytes.fromhex(p.impl.cmd("prim pub main").split(" ")[1])
    sec = bytes.fromhex(p.impl.cmd("prim secret main").split(" ")[1])
    for case in range(48):
        blocks = [bytes([97 + i]) * r.choice([0, 1, 5]) for i in range(r.choice([1, 2, 3, 5]) if case % 3 else r.choice([3, 4, 6]))]
        ref = jsfmt.RefTree(blocks)
        L = len(blocks)
        # flushed prefix of k blocks lives in header/tree/bitfield/data; the rest arrives as entries
        k = r.randrange(0, L + 1) if case % 3 else r.randrange(0, L - 1)
        slot = r.choice([0, 1]); bit = r.choice([0, 1])
        def sig_for(n):
            return bytes.fromhex(p.impl.cmd("prim sign main " + jsfmt.signable(jsfmt.tree_hash(ref.roots(n)), n).hex()).split(" ")[1])
        hdr = jsfmt.enc_header(pub, sec, k, jsfmt.tree_hash(ref.roots(k)) if k else b"", sig_for(k) if k else b"", k)
        oplog = bytearray(8192)
        hf = jsfmt.frame(bit, 0, hdr)
        oplog[slot * 4096: slot * 4096 + len(hf)] = hf
        other_valid = r.random() < 0.5
        # with one valid slot: slot 0 alone => bits (b,b): current bit 0 ... the entry bit must follow the JS rule
        if other_valid:
            old = jsfmt.enc_header(pub, sec, 0, b"", b"", 0)
            # choose the other slot's bit so that [slot] is the current one
            obit = bit if slot == 0 else 1 - bit
            of = jsfmt.frame(obit, 0, old)
            o = 1 - slot
            oplog[o * 4096: o * 4096 + len(of)] = of
            bits = (bit, obit) if slot == 0 else (obit, bit)
        else:
            bits = (bit, bit) if slot == 0 else (1 - bit, bit)
        cur = bits[0] ^ bits[1]
        # entries: one per remaining block, then maybe a clear, then maybe trailing partial entries
        ents = []
        for i in range(k, L):
            nodes = []
            want_prev = ref.all_nodes(i); want_now = ref.all_nodes(i + 1)
            nodes = [want_now[x] for x in sorted(want_now) if x not in want_prev]
            nodes.sort(key=lambda n: (n[0] % 2, n[0]))
            ents.append((jsfmt.enc_entry(nodes=nodes, upgrade=(0, i, i + 1, sig_for(i + 1)), bitfield=(0, i, 1)), 0))
        cleared = set()
        if L > 0 and r.random() < 0.5:
            c = r.randrange(L)
            ents.append((jsfmt.enc_entry(bitfield=(1, c, 1)), 0)); cleared.add(c)
        npart = r.choice([0, 0, 1, 2])
        mid_partial = (case % 3 == 0 or r.random() < 0.3) and len(ents) >= 2
        flags = [0] * len(ents)
        if mid_partial:
            # finished atomic batches (as the JavaScript implementation writes with append(batch, atomic)): one or more
            # partial entries followed by the non-partial entry that completes the batch, anywhere in the log
            j0 = r.randrange(0, len(ents) - 1)
            for j in range(j0, r.randrange(j0 + 1, len(ents))):
                flags[j] = 1
            res.count("synthetic:completed-atomic-batch")
        for _ in range(npart):
            ents.append((jsfmt.enc_entry(bitfield=(1, 0, 1)), 1)); flags.append(1)
        body = b"".join(jsfmt.frame(cur, flags[j], e[0]) for j, e in enumerate(ents))
        garbage = bytes(r.randrange(256) for _ in range(r.choice([0, 0, 3, 9])))
        oplog = bytes(oplog) + body + garbage
        tree = bytearray()
        for idx, (i_, s_, h_) in ref.all_nodes(k).items():
            if len(tree) < 40 * (idx + 1):
                tree.extend(b"\x00" * (40 * (idx + 1) - len(tree)))
            tree[40 * idx:40 * idx + 40] = jsfmt.le64(s_) + h_
        bitf = bytearray(4096 if k else 0)
        for i in range(k):
            bitf[i // 8] |= 1 << (i % 8)
        data = b"".join(blocks)   # the data of unflushed appends is written before their entry
        p.reset(); p.raw("disk D")
        for s, content in (("t", bytes(tree)), ("d", data), ("b", bytes(bitf)), ("o", oplog)):
            if content:
                p.raw("rawwrite D %s 0 %s" % (s, content.hex()))
        p.core_disk["W"] = "D"
        n, _ = parse_journal(p.impl.cmd("journal D 0")); p.jpos["D"] = n
        ia, _ = p.do("open W D")
        res.count("synthetic-oplogs")
        res.count("synthetic:slot%d-%s-%dentries-%dpartial" % (slot, "both" if other_valid else "single", len(ents) - npart, npart))
        rep = dict(case=case, blocks=[b.hex() for b in blocks], flushed=k, slot=slot, bits=bits, entries=len(ents), trailing_partials=npart)
        if ia != "ok":
            found.append(dict(key="synthetic:open", what="crate cannot open JS-layout storage: %s (%s)" % (ia[:120], rep), replay=rep))
            continue
        spec = ListSpec(); spec.blocks = blocks; spec.cleared = cleared
        try:
            ib, _ = p.do("info W")
            if ib != spec.exp_info():
                raise Violation("synthetic:state", "opened JS-layout storage reports %s, the layout rules give %s" % (ib, spec.exp_info()), case)
            for i in range(L + 1):
                b, _ = p.do("get W %d" % i)
                if b != spec.exp_get(i):
                    raise Violation("synthetic:state", "get(%d)=%s, expected %s" % (i, b[:60], spec.exp_get(i)[:60]), case)
            # what open itself wrote (its repairing truncate) must leave files that still say what the API says,
            # and a second open WITHOUT any write in between must reproduce the state
            reader_check(p, "W", "D", "after opening synthetic JS-layout storage (case %d)" % case)
            p.raw("drop W"); iar, _ = p.do("open W D")
            ibr, _ = p.do("info W")
            if iar != "ok" or ibr != spec.exp_info():
                raise Violation("synthetic:reopen", "second open without any write in between: open=%s info=%s, expected %s" % (iar, ibr, spec.exp_info()), case)
            # the core must keep working on it
            ia2, _ = p.do("append W 7a")
            if ia2 != "ok %d %d" % (L + 1, spec.byte_length + 1):
                raise Violation("synthetic:continue", "append on opened JS-layout storage answered %s" % ia2[:100], case)
            p.raw("drop W"); ia3, _ = p.do("open W D")
            ib, _ = p.do("get W %d" % L)
            if ia3 != "ok" or ib != "ok some 7a":
                raise Violation("synthetic:continue", "after append+reopen: open=%s get=%s" % (ia3, ib[:40]), case)
        except Violation as v:
            found.append(dict(key=v.key, what=v.what + " " + str(rep), replay=rep))
        if len(found) >= 3:
            break
    return found


def main(tier, seed):
    res = Result("C06", tier, seed)
    res.gate = coq_gate("C06.v", clean=(tier == "thorough"))
    build_harness(); build_model()
    r = random.Random(seed)
    pair = Pair()
    try:
        res.violations.extend(golden_scenario(pair, res))
        res.add_case(("golden",), True, sample="five-step interop scenario")
        res.disagreements.extend(pair.disagreements[:3]); pair.disagreements = []
        res.violations.extend(synthetic(pair, r, res))
        res.add_case(("synthetic",), True)
        res.disagreements.extend(pair.disagreements[:3]); pair.disagreements = []
        # storage holding ONE pending entry above 65536 bytes: the state between the entry write and the header write of a large
        # batch append (the Rust writer flushes such an entry away in the same call; a crash or another writer leaves it)
        try:
            pair.reset(); pair.raw("disk D")
            pair.do("new W D writer"); pair.do("append W 61 6263")
            n0, _ = parse_journal(pair.impl.cmd("journal D 0"))
            pair.do("append W " + " ".join("%02x" % (65 + i % 26) for i in range(1000)))
            _, allops = parse_journal(pair.impl.cmd("journal D 0"))
            ent = [i for i in range(n0, len(allops)) if allops[i].startswith("w:o:") and int(allops[i].split(":")[2]) >= 8192]
            if ent:
                size = len(allops[ent[0]].split(":")[3]) // 2
                pair.raw("fork X D %d" % (ent[0] + 1))
                pair.core_disk["X"] = "X"
                pair.jpos["X"] = 10 ** 9
                # the independent reader looks at the files BEFORE the crate opens them (open repairs: it truncates what it does not accept)
                st0 = jsfmt.read_storage(*jsfmt.parse_files(pair.impl.cmd("files X")))
                ia, _ = pair.do("open X X")
                if not ia.startswith("ok"):
                    raise Violation("reader:open", "storage with one pending entry of %d bytes: open answered %s" % (size, ia[:100]), "big-entry")
                ib, _ = pair.do("info X")
                t = ib.split(" ")
                if st0 is None or (int(t[1]), int(t[2]), int(t[3])) != (st0["length"], st0["byte_length"], st0["contiguous_actual"]):
                    raise Violation("reader:big-entry", "storage with one pending oplog entry of %d bytes (current header bit, valid checksum): the layout rules give "
                                    "(length, byte length, contiguous) = %s, the crate opens it to %s" %
                                    (size, st0 and (st0["length"], st0["byte_length"], st0["contiguous_actual"]), ib), "big-entry")
                reader_check(pair, "X", "X", "storage with one pending oplog entry of %d bytes" % size)
                res.count("big-pending-entry")
                pair.raw("drop X")
        except Violation as v:
            res.violations.append(dict(key=v.key, what=v.what, replay=dict(case="big pending entry: append 2 blocks, append 1000 one-byte blocks, cut after the entry write")))
        res.add_case(("big-pending-entry",), True, sample="one pending oplog entry above 65536 bytes read by the independent reader and by the crate")
        res.disagreements.extend(pair.disagreements[:3]); pair.disagreements = []
        # reader oracle at every operation boundary of writer histories
        hs = [random_history(r, r.choice([5, 9, 14])) for _ in range(25 if tier == "quick" else 500)]
        # clears over word borders / over already-emptied words of a bitfield page (what a flush persists of them is read by the
        # independent reader right after the call and after the reopen)
        import c01
        hs += [c01.word_history(r) for _ in range(3 if tier == "quick" else 60)] + [wide_clear_history(r) for _ in range(4 if tier == "quick" else 60)]
        for hi, h in enumerate(hs):
            if hi % 3 == 1 and hi < (25 if tier == "quick" else 500):
                # make_read_only in the middle (it rewrites BOTH header slots), then entries written by the same
                # instance (clears): they must carry the header bit a JavaScript reader expects
                pos = r.randrange(1, len(h) + 1)
                nb = sum(len(o[1]) for o in h[:pos] if o[0] == "append")
                tail = []
                for _ in range(r.choice([1, 2, 3]) if nb else 0):
                    s0 = r.randrange(nb)
                    tail.append(("clear", s0, s0 + r.choice([1, 1, 2])))
                h[pos:pos] = [("readonly",)] + tail
                res.count("histories-with-make-read-only")
            def on_step(k, op, spec, pair=pair):
                reader_check(pair, "W", "D", "after step %d %s" % (k, op_text(op)))
                res.count("reader-checks")
            v, _ = find_violation(pair, h, probe="none", on_step=on_step)
            res.add_case(tuple(op_text(o) for o in h), True, sample=[op_text(o) for o in h][:8] if res.evaluations % 10 == 0 else None)
            if v:
                res.violations.append(dict(key=v.key, what=v.what, replay=dict(history=[op_json(o) for o in h])))
            res.disagreements.extend(pair.disagreements[:2]); pair.disagreements = []
            if len(res.violations) >= 4:
                break
        # a core longer than one 32768-bit bitfield page: page 1 of the bitfield file must sit at byte 4096
        pair.reset(); pair.raw("disk D"); pair.do("new W D writer")
        pair.do("append W " + " ".join(["41"] * 20000))
        pair.do("append W " + " ".join(["42"] * 13500))
        try:
            reader_check(pair, "W", "D", "large core (33500 blocks)")
            pair.raw("drop W"); pair.do("open W D")
            reader_check(pair, "W", "D", "large core (33500 blocks) after reopen")
            res.count("reader-checks-large-core", 2)
        except Violation as v:
            res.violations.append(dict(key=v.key, what=v.what, replay=dict(history="append 20000 one-byte blocks; append 13500; reader")))
        res.add_case(("large-core",), True)
        res.disagreements.extend(pair.disagreements[:2]); pair.disagreements = []
        # replica files: block-only and upgrade-only entries
        import c03
        for k in range(6 if tier == "quick" else 100):
            w = None
            def hook():
                pass
            v = c03.run_world(pair, r, res, steps=8)
            if v:
                res.violations.append(v)
            else:
                try:
                    reader_check(pair, "R", "RD", "replica after world %d" % k)
                    res.count("reader-checks-replica")
                except Violation as vv:
                    res.violations.append(dict(key=vv.key, what=vv.what, replay=dict(world=k)))
            res.add_case(("replica-world", k), True)
            res.disagreements.extend(pair.disagreements[:2]); pair.disagreements = []
        # make_read_only on a replica, then proof applications by the same instance
        import repl
        for k in range(6 if tier == "quick" else 80):
            w = repl.build_world(pair, r, nblocks=r.choice([4, 8, 12]))
            try:
                did_ro = False
                for step in range(6):
                    if step == 1 or (step > 1 and r.random() < 0.15):
                        ia, _ = pair.do("readonly R"); w.log.append("readonly R"); did_ro = True
                        if ia != "ok 0":
                            raise Violation("replica:readonly", "make_read_only on a replica answered " + ia, step)
                    else:
                        req = w.honest_request(r, kinds=["block", "block", "upgrade"])
                        if req is None:
                            continue
                        ia, _ = w.prove(**req[1])
                        if not ia.startswith("ok ") or ia == "ok none":
                            continue
                        aa, _ = w.apply(ia[3:])
                        if aa != "ok 1":
                            raise Violation("replica:accept", "honest proof refused: " + aa, step)
                        w.note_applied(repl.parse_proof(ia[3:]))
                    reader_check(pair, "R", "RD", "replica with make_read_only, world %d step %d" % (k, step))
                    res.count("reader-checks-replica-readonly")
                w.r_reopen()
                w.check_replica("replica with make_read_only, after reopen")
            except Violation as vv:
                res.violations.append(dict(key=vv.key, what=vv.what, replay=dict(world=w.log)))
            res.add_case(("replica-readonly-world", k), True)
            res.disagreements.extend(pair.disagreements[:2]); pair.disagreements = []
        res.extra["commands_compared"] = pair.ncmp
    finally:
        pair.close()
    return res.finish(
        "theorems of coq/props/C06.v (header/entry/frame/page/node codecs round-trip; open of rendered layouts); the crate's files "
        "are read by an independent JS-layout reader at every operation boundary; synthetic JS-valid oplogs from the "
        "reference encoder are opened by the crate; the five-step interop scenario reproduces the certified file hashes",
        "golden scenario + synthetic oplogs (slot x bits x entries x partial flags) + random histories + replica worlds")


if __name__ == "__main__":
    sys.exit(main(sys.argv[1], seed_from_env()))

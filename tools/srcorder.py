"""srcorder — source-derived protocol ORDER of the mutating calls of /repo/src/core.rs: for each of append_batch, clear,
verify_and_apply_proof, make_read_only and flush_bitfield_and_tree_and_oplog the order in which the marker calls occur in the
function body (data write, oplog entry, in-memory commits, checkpoint, events), and the number of storage calls whose Result is
not propagated with `?`. Written to coq/SrcOrder.v as `option` values (None = function or markers no longer found in a recognisable
form: no alarm); coq/OrderTie.v proves them equal to the order the model implements (and the theorems of C01/C02/C10/C13 rest on)."""
import os, re

REPO_SRC = "/repo/src"

# marker name -> regular expression that identifies the call in the function body
MARKERS = {
    "data":      r"self\s*\.\s*block_store\s*\.\s*(append_batch|put|clear)\s*\(",
    "entry":     r"self\s*\.\s*oplog\s*\.\s*(append_changeset|clear)\s*\(",
    "bitfield":  r"self\s*\.\s*bitfield\s*\.\s*(update|set_range)\s*\(",
    "commit":    r"self\s*\.\s*tree\s*\.\s*commit\s*\(",
    "checkpoint": r"self\s*\.\s*flush_bitfield_and_tree_and_oplog\s*\(",
    "events":    r"self\s*\.\s*events\s*\.\s*send\s*\(",
    "flush_bitfield": r"self\s*\.\s*bitfield\s*\.\s*flush\s*\(",
    "flush_tree": r"self\s*\.\s*tree\s*\.\s*flush\s*\(",
    "flush_oplog": r"self\s*\.\s*oplog\s*\.\s*flush\s*\(",
    "erase_secret": r"self\s*\.\s*key_pair\s*\.\s*secret\s*=\s*None",
}
FUNCS = {
    "append_batch": ["data", "entry", "bitfield", "commit", "checkpoint", "events"],
    "clear": ["entry", "bitfield", "data", "checkpoint"],
    "verify_and_apply_proof": ["data", "entry", "bitfield", "commit", "checkpoint", "events"],
    "make_read_only": ["erase_secret", "checkpoint"],
    "flush_bitfield_and_tree_and_oplog": ["flush_bitfield", "flush_tree", "flush_oplog"],
}


def strip_comments(src):
    src = re.sub(r"/\*.*?\*/", " ", src, flags=re.S)
    return "\n".join(l.split("//")[0] for l in src.split("\n"))


def fn_body(src, name):
    m = re.search(r"\bfn\s+%s\b" % re.escape(name), src)
    if not m:
        return None
    i = src.find("{", m.end())
    # skip a possible where-clause / generics: the body starts at the first '{' after the signature's ')' and '->' type
    depth, j = 0, i
    while j < len(src):
        if src[j] == "{":
            depth += 1
        elif src[j] == "}":
            depth -= 1
            if depth == 0:
                return src[i:j + 1]
        j += 1
    return None


def extract(src_root=REPO_SRC):
    try:
        src = strip_comments(open(os.path.join(src_root, "core.rs")).read())
    except OSError:
        src = ""
    out = []
    for fn, marks in FUNCS.items():
        body = fn_body(src, fn)
        order, unprop = None, None
        if body is not None:
            pos = []
            for mk in marks:
                ms = [m.start() for m in re.finditer(MARKERS[mk], body)]
                if ms:
                    pos.append((ms[0], mk))
            if len(pos) == len(marks):
                order = [mk for _, mk in sorted(pos)]
            # storage calls: every `self.storage.flush_info(s)(..)` and every checkpoint must be followed by `.await?`
            calls = list(re.finditer(r"self\s*\.\s*(storage\s*\.\s*flush_infos?|flush_bitfield_and_tree_and_oplog)\s*\(", body))
            unprop = 0
            for c in calls:
                # find the matching ')' and look at what follows
                d, k = 0, c.end() - 1
                while k < len(body):
                    if body[k] == "(":
                        d += 1
                    elif body[k] == ")":
                        d -= 1
                        if d == 0:
                            break
                    k += 1
                tail = re.sub(r"\s+", "", body[k + 1:k + 40])
                if not tail.startswith(".await?"):
                    unprop += 1
        out.append((fn, order, unprop))
    return out


def coq_text(items):
    lines = ["(* generated on every run by tools/srcorder.py from /repo/src/core.rs: the order of the protocol steps inside the mutating",
             "   calls as the source states it now, and the number of storage calls whose Result is not propagated with `?`",
             "   (None = not found in a recognisable form). OrderTie.v ties them to the order the model implements. *)",
             "From Coq Require Import List String NArith.", "Import ListNotations.", "Local Open Scope string_scope.", ""]
    for fn, order, unprop in items:
        o = "Some [%s]" % "; ".join('"%s"' % x for x in order) if order is not None else "None"
        u = "Some %d%%N" % unprop if unprop is not None else "None"
        lines.append("Definition src_order_%s : option (list string) := %s." % (fn, o))
        lines.append("Definition src_unpropagated_%s : option N := %s." % (fn, u))
    return "\n".join(lines) + "\n"


def regenerate(coq_dir, src_root=REPO_SRC):
    items = extract(src_root)
    txt = coq_text(items)
    p = os.path.join(coq_dir, "SrcOrder.v")
    old = open(p).read() if os.path.exists(p) else None
    if old != txt:
        with open(p, "w") as fh:
            fh.write(txt)
    return [dict(function=fn, order=order, unpropagated_storage_results=unprop) for fn, order, unprop in items]


if __name__ == "__main__":
    import sys
    print(coq_text(extract(sys.argv[1] if len(sys.argv) > 1 else REPO_SRC)))

"""hclib — shared machinery of the /verif checks (python3, stdlib only).

Build steps (Coq gate, harness, extracted model), line-protocol clients, canonicalisation,
case execution on implementation + model, shrinking, evidence and verdict output.
"""
import fcntl, hashlib, json, os, random, re, subprocess, sys, time

VERIF = os.path.dirname(os.path.dirname(os.path.abspath(__file__)))
REPO = "/repo"
CACHE = os.path.join(VERIF, ".cache")
COQ = os.path.join(VERIF, "coq")
HARNESS_BIN = os.path.join(CACHE, "target", "release", "hcharness")
HARNESS_CACHE_BIN = os.path.join(CACHE, "target-cache", "release", "hcharness")
MODEL_BIN = os.path.join(CACHE, "ocaml", "hcmodel")
EVIDENCE = os.path.join(VERIF, "evidence")
REPLAYS = os.path.join(EVIDENCE, "replays")
KNOWN = os.path.join(VERIF, "known_findings.txt")
ENV = dict(os.environ, CARGO_NET_OFFLINE="true", CARGO_TARGET_DIR=os.path.join(CACHE, "target"))

TRUSTED_BASE = [
    "Coq 8.16.1 kernel (coqc; vm_compute used in Examples only; no native_compute)",
    "axioms: none (Print Assumptions of every pinned theorem = 'Closed under the global context')",
    "extraction: ExtrOcamlBasic only (no Extract Constant/Inductive of our own); OCaml 4.13.1",
    "hand-written glue: ocaml/driver.ml, harness/src/*.rs, tools/*.py (incl. the six source-to-Coq translators: "
    "tools/srcconsts.py -> coq/SrcConsts.v, tools/srccodec.py -> coq/SrcCodec.v, tools/srcorder.py -> coq/SrcOrder.v, tools/srcshape.py -> coq/SharedShape.v, "
    "tools/srcfns.py -> coq/SrcFns.v: Rust expression parser and the meaning FnDesc.reval gives the operators, "
    "tools/srchash.py -> coq/SrcHash.v: classification of the hasher.update / to_encoded_bytes! arguments of src/crypto/hash.rs, incl. the "
    "syntactic judgement that an expression is a u64)",
    "cryptographic primitives (BLAKE2b-256, CRC-32, Ed25519) are parameters of the model; at run time "
    "both sides use the blake2 / crc32fast / ed25519-dalek crates",
    "dependency crates flat-tree, compact-encoding, random-access-memory (PagedMem.v), random-access-disk (DiskFile.v, over an assumed POSIX file), "
    "async-broadcast (Broadcast.v) are modelled, not verified; each model is run against its crate on every run of the property that uses it",
    "the tie model<->/repo is differential execution (testing), see coverage.evaluations",
]


def log(*a):
    print(*a, file=sys.stderr, flush=True)


# ----------------------------------------------------------------------------------------------
# builds
# ----------------------------------------------------------------------------------------------

class BuildError(Exception):
    pass


def _lock():
    os.makedirs(CACHE, exist_ok=True)
    f = open(os.path.join(CACHE, "build.lock"), "w")
    fcntl.flock(f, fcntl.LOCK_EX)
    return f


def run(cmd, cwd=None, timeout=1800, env=None):
    p = subprocess.run(cmd, cwd=cwd, env=env or ENV, stdout=subprocess.PIPE, stderr=subprocess.STDOUT,
                       timeout=timeout, text=True, shell=isinstance(cmd, str))
    return p.returncode, p.stdout


FORBIDDEN = re.compile(r"\b(Admitted|admit|Axiom|Axioms|Parameter|Parameters|Conjecture|Conjectures|"
                       r"Admit Obligations|bypass_check)\b|Unset Guard|Unset Positivity|Unset Universe|"
                       r"-type-in-type|-impredicative-set")


def strip_coq_comments(src):
    out, depth, i = [], 0, 0
    while i < len(src):
        if src.startswith("(*", i):
            depth += 1; i += 2
        elif src.startswith("*)", i) and depth > 0:
            depth -= 1; i += 2
        else:
            if depth == 0:
                out.append(src[i])
            i += 1
    return "".join(out)


def coq_sources():
    res = []
    for root, _, files in os.walk(COQ):
        for f in files:
            if f.endswith(".v"):
                res.append(os.path.join(root, f))
    return sorted(res)


def coq_gate(prop_file, clean=False):
    """Builds the development and checks the property file. Returns dict(ok, problems, theorems,
    assumptions, wall_s, checker_cmd)."""
    t0 = time.time()
    problems = []
    thorough = clean
    if os.environ.get("VERIF_ESCALATED"):
        clean = thorough = False      # an escalated search re-uses the build of the quick run
    chk_out = None
    bdir = COQ
    lk = _lock()
    try:
        # source-derived input of the development: the crate's named constants as /repo/src states them now
        import srcconsts, srccodec, srcorder, srcshape, srcfns, srchash, shutil
        src_consts = srcconsts.regenerate(COQ)
        # ... and the wire codecs as /repo/src/encoding.rs states them now (field lists of the three macros)
        src_codecs = srccodec.regenerate(COQ)
        # ... and the order of the protocol steps inside the mutating calls of /repo/src/core.rs
        src_order = srcorder.regenerate(COQ)
        # ... and small pure expressions of /repo/src/oplog/mod.rs and /repo/src/core.rs (leader word, slot automaton, contiguous length, cadence)
        src_fns = srcfns.regenerate(COQ)
        # ... and the hash layouts of /repo/src/crypto/hash.rs (ordered, classified arguments of the hasher / of to_encoded_bytes!)
        src_hash = srchash.regenerate(COQ)
        srcshape.write_shape_v(srcshape.shared_shape())
        if clean:
            # thorough tier: a build from clean in a private copy of the sources (so that concurrent checks keep their
            # incremental build), later re-checked there by coqchk
            bdir = os.path.join(CACHE, "coq_clean_" + prop_file[:-2])
            shutil.rmtree(bdir, ignore_errors=True)
            os.makedirs(os.path.join(bdir, "props"))
            for f in coq_sources() + [os.path.join(COQ, "_CoqProject"), os.path.join(COQ, "props", "PINS.json")]:
                shutil.copy(f, os.path.join(bdir, os.path.relpath(f, COQ)))
            lk.close()
            lk = None
        # only the dependency cone of the property file is built (quick tier: incrementally, in the shared build directory that
        # `./check setup` filled; thorough tier: from clean in the private copy): a source-derived obligation of ANOTHER property
        # that no longer checks (e.g. the hash layouts tied in C05) must not fail this property's gate
        target = "props/%s.vo" % prop_file[:-2]
        rc, out = run("coq_makefile -f _CoqProject -o Makefile >/dev/null && timeout 3000 make -j16 %s" % target, cwd=bdir, timeout=3300)
        if rc != 0:
            tail = "\n".join(out.strip().split("\n")[-12:])
            problems.append("coq build failed:\n" + tail)
        # forbidden vernacular anywhere in the development
        for f in coq_sources():
            body = strip_coq_comments(open(f).read())
            for m in FORBIDDEN.finditer(body):
                problems.append("forbidden token %r in %s" % (m.group(0), os.path.relpath(f, VERIF)))
            if re.search(r"^\s*(Variable|Hypothesis|Variables|Hypotheses)\b", body, re.M):
                # allowed only inside sections: crude check = file has a Section
                if "Section" not in body:
                    problems.append("Variable/Hypothesis outside a section in %s" % f)
        theorems, assumptions = [], []
        pf = os.path.join(COQ, "props", prop_file)
        if not os.path.exists(pf):
            problems.append("property file missing: " + prop_file)
        else:
            src = strip_coq_comments(open(pf).read())
            theorems = re.findall(r"^\s*(?:Theorem|Example|Corollary)\s+([A-Za-z0-9_']+)", src, re.M)
            n_print = len(re.findall(r"Print Assumptions", src))
            pins = json.load(open(os.path.join(COQ, "props", "PINS.json")))
            h = hashlib.sha256(open(pf, "rb").read()).hexdigest()
            if pins.get(prop_file) != h:
                problems.append("statements in %s differ from the pinned version (PINS.json)" % prop_file)
            if rc == 0:
                rc2, out2 = run("timeout 600 coqc -Q . HC props/%s" % prop_file, cwd=bdir)
                if rc2 != 0:
                    problems.append("coqc %s failed:\n%s" % (prop_file, out2[-800:]))
                closed = out2.count("Closed under the global context")
                if closed != n_print:
                    problems.append("Print Assumptions: %d of %d closed; output:\n%s" % (closed, n_print, out2[-1500:]))
                assumptions = ["Closed under the global context"] * closed
                if thorough and not problems:
                    # independent re-check of the compiled property file and everything it depends on
                    ok, chk_out = coqchk(prop_file, bdir)
                    if not ok:
                        problems.append("coqchk failed: " + chk_out[-600:])
    finally:
        if lk is not None:
            lk.close()
        if bdir != COQ:
            shutil.rmtree(bdir, ignore_errors=True)
    return dict(ok=not problems, problems=problems, theorems=theorems, assumptions=assumptions,
                wall_s=time.time() - t0, coqchk=(chk_out[-700:] if chk_out else None), src_consts=src_consts,
                src_codecs=src_codecs, src_order=src_order, src_fns=src_fns, src_hash=src_hash,
                checker_cmd="cd /verif/coq && coq_makefile -f _CoqProject -o Makefile && make -j16 props/%svo && coqc -Q . HC props/%s" % (prop_file[:-1], prop_file))


def coqchk(prop_file, bdir=None):
    mod = "HC.props." + prop_file[:-2]
    rc, out = run("timeout 3000 coqchk -silent -o -Q . HC %s" % mod, cwd=bdir or COQ, timeout=3300)
    return rc == 0, out[-1500:]


def build_harness(cache_feature=False):
    lk = _lock()
    try:
        if not os.path.exists(os.path.join(VERIF, "harness", "Cargo.lock")):
            run(["cp", os.path.join(REPO, "Cargo.lock"), os.path.join(VERIF, "harness", "Cargo.lock")])
        env = dict(ENV)
        cmd = "cargo build --offline --release"
        if cache_feature:
            env["CARGO_TARGET_DIR"] = os.path.join(CACHE, "target-cache")
            cmd += " --features cache"
        rc, out = run("timeout 1700 " + cmd, cwd=os.path.join(VERIF, "harness"), env=env)
        if rc != 0:
            raise BuildError("harness build failed:\n" + out[-3000:])
    finally:
        lk.close()


def build_model():
    lk = _lock()
    try:
        d = os.path.join(CACHE, "ocaml")
        os.makedirs(d, exist_ok=True)
        rc, out = run("timeout 900 coqc -Q %s HC -o %s/Extract.vo %s/Extract.v" % (COQ, d, COQ), cwd=d)
        if rc != 0:
            raise BuildError("extraction failed:\n" + out[-3000:])
        run(["cp", os.path.join(VERIF, "ocaml", "driver.ml"), d])
        rc, out = run("timeout 900 ocamlfind ocamlopt -O3 -package zarith,unix -linkpkg -w -a "
                      "hcmodel.mli hcmodel.ml driver.ml -o hcmodel", cwd=d)
        if rc != 0:
            raise BuildError("model driver build failed:\n" + out[-3000:])
    finally:
        lk.close()


# ----------------------------------------------------------------------------------------------
# protocol clients
# ----------------------------------------------------------------------------------------------

class Server:
    def __init__(self, argv, name, env=None):
        self.argv, self.name, self.env = argv, name, env
        self.p = None
        self.ncmd = 0
        self.start()

    def start(self):
        def big_stack():
            import resource
            try:
                resource.setrlimit(resource.RLIMIT_STACK, (resource.RLIM_INFINITY, resource.RLIM_INFINITY))
            except Exception:
                pass
        self.p = subprocess.Popen(self.argv, stdin=subprocess.PIPE, stdout=subprocess.PIPE,
                                  stderr=subprocess.DEVNULL, text=True, bufsize=1,
                                  env=dict(os.environ, **(self.env or {})),
                                  preexec_fn=big_stack if self.name == "model" else None)

    def cmd(self, line):
        self.ncmd += 1
        try:
            self.p.stdin.write(line + "\n")
            self.p.stdin.flush()
            a = self.p.stdout.readline()
        except (BrokenPipeError, OSError):
            a = ""
        if a == "":
            self.restart()
            return "dead"
        a = a.rstrip("\n")
        if a == "hang":
            self.restart()
        return a

    def restart(self):
        try:
            self.p.kill()
            self.p.wait()
        except Exception:
            pass
        self.start()

    def close(self):
        try:
            self.p.stdin.close()
            self.p.wait(timeout=10)
        except Exception:
            try:
                self.p.kill()
            except Exception:
                pass


def impl_server(cache=False, watchdog_ms=60000, scratch=None):
    env = {"HC_WATCHDOG_MS": str(watchdog_ms)}
    if scratch:
        env["HC_SCRATCH"] = scratch
    return Server([HARNESS_CACHE_BIN if cache else HARNESS_BIN], "impl", env)


def model_server():
    return Server([MODEL_BIN], "model", {"HC_PRIM_HELPER": HARNESS_BIN})


def klass(ans):
    """canonical class of an answer: crash for panic / hang / fuel / dead"""
    if ans.startswith("panic") or ans in ("hang", "fuel", "dead") or ans.startswith("fuel"):
        return "crash"
    if ans.startswith("err Protocol"):
        return ans
    return ans


def canon_journal_ops(ops):
    """sort maximal runs of consecutive tree/bitfield writes (one unordered flush group)"""
    out, run_ = [], []

    def key(o):
        p = o.split(":")
        return (p[1], int(p[2]))
    for o in ops:
        if o.startswith("w:t:") or o.startswith("w:b:"):
            run_.append(o)
        else:
            out.extend(sorted(run_, key=key)); run_ = []
            out.append(o)
    out.extend(sorted(run_, key=key))
    return out


def parse_journal(ans):
    # "ok N op op ..."
    t = ans.split(" ")
    return int(t[1]), t[2:]


def is_flush(ops):
    for o in ops:
        if o.startswith("w:o:"):
            if int(o.split(":")[2]) < 8192:
                return True
    return False


def hexb(b):
    return b.hex() if b else "_"


def unhex(s):
    return b"" if s == "_" else bytes.fromhex(s)


class Pair:
    """implementation + model, fed the same commands; records a transcript and disagreements."""

    MUTATING = ("append", "clear", "apply", "readonly")

    def __init__(self, impl=None, model=None, compare_journal=True):
        self.impl = impl or impl_server()
        self.model = model or model_server()
        self.own = (impl is None, model is None)
        self.compare_journal = compare_journal
        self.transcript = []
        self.disagreements = []
        self.jpos = {}       # disk -> journal position (same on both sides while they agree)
        self.core_disk = {}
        self.ncmp = 0

    def close(self):
        if self.own[0]:
            self.impl.close()
        if self.own[1]:
            self.model.close()

    def reset(self):
        self.impl.cmd("reset"); self.model.cmd("reset")
        self.transcript, self.disagreements = [], []
        self.jpos, self.core_disk = {}, {}

    def raw(self, line, model_line=None, compare=True):
        ia = self.impl.cmd(line)
        ma = self.model.cmd(model_line or line)
        self.transcript.append((line, ia, ma))
        if compare:
            self.ncmp += 1
            if klass(ia) != klass(ma):
                self.disagreements.append(dict(cmd=line, impl=ia[:400], model=ma[:400]))
        return ia, ma

    def journal_delta(self, disk):
        pos = self.jpos.get(disk, 0)
        ij = self.impl.cmd("journal %s %d" % (disk, pos))
        mj = self.model.cmd("journal %s %d" % (disk, pos))
        return ij, mj

    def do(self, line):
        """run a command on both; for mutating core commands force the model's flush decision to
        the one the implementation took, then compare the journal deltas."""
        t = line.split(" ")
        kind = t[0]
        if kind in ("new", "open", "openkp"):
            self.core_disk[t[1]] = t[2]
        if kind in self.MUTATING or kind in ("new", "open", "openkp"):
            disk = self.core_disk.get(t[1])
            ia = self.impl.cmd(line)
            ij = self.impl.cmd("journal %s %d" % (disk, self.jpos.get(disk, 0))) if disk else "ok 0"
            try:
                n_i, ops_i = parse_journal(ij)
            except Exception:
                n_i, ops_i = 0, []
            mline = line
            if kind in self.MUTATING:
                f = "F=1" if is_flush(ops_i) else "F=0"
                mline = " ".join(t[:2] + [f] + t[2:])
            ma = self.model.cmd(mline)
            mj = self.model.cmd("journal %s %d" % (disk, self.jpos.get(disk, 0))) if disk else "ok 0"
            try:
                n_m, ops_m = parse_journal(mj)
            except Exception:
                n_m, ops_m = 0, []
            self.transcript.append((line, ia, ma))
            self.ncmp += 1
            if klass(ia) != klass(ma):
                self.disagreements.append(dict(cmd=line, impl=ia[:400], model=ma[:400]))
            elif self.compare_journal and klass(ia) != "crash":
                ci, cm = canon_journal_ops(ops_i), canon_journal_ops(ops_m)
                if ci != cm:
                    k = 0
                    while k < min(len(ci), len(cm)) and ci[k] == cm[k]:
                        k += 1
                    self.disagreements.append(dict(
                        cmd=line, level="journal", first_diff=k,
                        impl=(ci[k][:300] if k < len(ci) else "<end>"),
                        model=(cm[k][:300] if k < len(cm) else "<end>"),
                        impl_n=len(ci), model_n=len(cm)))
            if disk:
                self.jpos[disk] = n_i
            self.last_ops = ops_i
            return ia, ma
        return self.raw(line)


# ----------------------------------------------------------------------------------------------
# known findings, replays, verdicts, evidence
# ----------------------------------------------------------------------------------------------

def load_known():
    findings = []
    if os.path.exists(KNOWN):
        for l in open(KNOWN):
            l = l.strip()
            if l.startswith("finding:"):
                m = re.match(r"finding:\s+property=(\S+)\s+key=(\S+)\s+(.*)", l)
                if m:
                    findings.append(dict(property=m.group(1), key=m.group(2), what=m.group(3)))
    return findings


def write_replay(prop, name, content):
    os.makedirs(REPLAYS, exist_ok=True)
    path = os.path.join(REPLAYS, "%s_%s.json" % (prop, name))
    with open(path, "w") as f:
        json.dump(content, f, indent=1)
    return path


class Result:
    def __init__(self, prop, tier, seed):
        self.prop, self.tier, self.seed = prop, tier, seed
        self.t0 = time.time()
        self.violations = []      # dicts: key, what, replay(dict)
        self.disagreements = []   # correspondence failures
        self.gate = None
        self.evaluations = 0
        self.nontrivial = set()
        self.samples = []
        self.dist = {}
        self.extra = {}
        self.notes = []

    def count(self, key, n=1):
        self.dist[key] = self.dist.get(key, 0) + n

    def add_case(self, sig, nontrivial=True, sample=None):
        self.evaluations += 1
        if nontrivial:
            self.nontrivial.add(sig)
        if sample is not None and len(self.samples) < 6:
            self.samples.append(sample)

    def escalate(self):
        """A proof obligation or the correspondence broke but no case of this run violates the property: search
        harder (the thorough generators, time-boxed) for a concrete failing input before reporting
        no-failing-input-found. Returns True when the deeper search printed a VIOLATION with a replay."""
        if self.tier != "quick" or os.environ.get("VERIF_ESCALATED") or os.environ.get("VERIF_NO_ESCALATE"):
            return False
        log("%s: theorem or correspondence no longer checks; escalating the search for a failing input" % self.prop)
        try:
            p = subprocess.run([os.path.join(VERIF, "check"), self.prop, "thorough"], cwd=VERIF,
                               env=dict(os.environ, VERIF_ESCALATED="1", VERIF_TIER="thorough"),
                               stdout=subprocess.PIPE, stderr=subprocess.DEVNULL, text=True,
                               timeout=int(os.environ.get("VERIF_ESCALATE_S", "900")))
            out = p.stdout
        except subprocess.TimeoutExpired as e:
            out = e.stdout or ""
            if isinstance(out, bytes):
                out = out.decode("utf8", "replace")
        self.notes.append("escalated search was run (thorough generators, time-boxed)")
        for l in out.split("\n"):
            if l.startswith("VIOLATION") and "no-failing-input-found" not in l and "replay=" in l:
                src = l.split("replay=")[1].split(" ")[0]
                try:
                    j = json.load(open(src))
                    j["found_by"] = "escalated search after a broken proof obligation / correspondence"
                    path = write_replay(self.prop, "violation", j)
                except Exception:
                    path = src
                print("VIOLATION property=%s replay=%s" % (self.prop, path))
                return True
        return False

    def finish(self, level_text, rule, obligations_extra=None):
        """prints verdict lines, writes evidence, returns exit code"""
        known = load_known()
        code = 0
        seen_keys = set()
        unknown = []
        for v in self.violations:
            k = [f for f in known if f["property"] == self.prop and f["key"] == v.get("key")]
            if k:
                if v["key"] not in seen_keys:
                    print("KNOWN-FINDING: property=%s %s" % (self.prop, k[0]["what"]))
                    seen_keys.add(v["key"])
            else:
                unknown.append(v)
        if unknown:
            v = unknown[0]
            path = write_replay(self.prop, "violation", dict(
                property=self.prop, kind="property violated on the implementation", what=v["what"],
                replay=v.get("replay"), more=len(unknown) - 1))
            print("VIOLATION property=%s replay=%s" % (self.prop, path))
            code = 1
        elif ((self.gate and not self.gate["ok"]) or self.disagreements) and self.escalate():
            code = 1
        elif (self.gate and not self.gate["ok"]) or self.disagreements:
            what = []
            if self.gate and not self.gate["ok"]:
                what.append(dict(theorems_no_longer_checked=self.gate["theorems"], problems=self.gate["problems"]))
            if self.disagreements:
                what.append(dict(correspondence="model and implementation differ",
                                 first=self.disagreements[:5], total=len(self.disagreements)))
            path = write_replay(self.prop, "unproved", dict(
                property=self.prop, kind="property no longer shown to hold; no failing input found",
                details=what, searched=dict(evaluations=self.evaluations)))
            print("VIOLATION property=%s replay=%s no-failing-input-found" % (self.prop, path))
            code = 1
        gate = self.gate or dict(theorems=[], assumptions=[], checker_cmd="", ok=False)
        obligations = len(gate["theorems"]) + (obligations_extra or 0)
        level = "proof"
        try:
            man = json.load(open(os.path.join(VERIF, "MANIFEST.json")))
            for c in man["checks"]:
                if c["property_id"] == self.prop:
                    level = c["level_claimed"]["category"]
        except Exception:
            pass
        if not self.samples:
            self.samples.append("no sample recorded")
        # stale replay files of this property are removed when nothing is reported
        if code == 0 and os.path.isdir(REPLAYS):
            for f in os.listdir(REPLAYS):
                if f.startswith(self.prop + "_"):
                    os.remove(os.path.join(REPLAYS, f))
        ev = dict(
            property_id=self.prop, tier=self.tier, seed=self.seed, level=level,
            coverage=dict(
                obligations=obligations,
                discharged=obligations if gate.get("ok") else 0,
                checker_cmd=gate.get("checker_cmd", ""),
                trusted_base=TRUSTED_BASE,
                theorems=gate["theorems"],
                print_assumptions=sorted(set(gate["assumptions"])),
                evaluations=self.evaluations,
                distinct_nontrivial=len(self.nontrivial),
                rule=rule,
                samples=self.samples,
                distribution=self.dist,
                correspondence_disagreements=len(self.disagreements),
                **({"coqchk": gate["coqchk"]} if gate.get("coqchk") else {}),
                **({"source_constants_tied": gate["src_consts"]} if gate.get("src_consts") else {}),
                **({"source_order_tied": gate["src_order"]} if gate.get("src_order") and self.prop in ("C02", "C10", "C13") else {}),
                **({"source_hash_layouts_tied": gate["src_hash"]} if gate.get("src_hash") and self.prop == "C05" else {}),
                **({"source_functions_tied": [f for f in gate["src_fns"]
                                               if f["name"].startswith("contig_") == (self.prop == "C08")]}
                   if gate.get("src_fns") and self.prop in ("C06", "C08") else {}),
                **({"source_codecs_tied": [c for c in gate["src_codecs"]
                                            if c.get("group", "wire") == {"C11": "wire", "C06": "oplog"}[self.prop]]}
                   if gate.get("src_codecs") and self.prop in ("C11", "C06") else {}),
                **self.extra),
            assumptions=[level_text] + self.notes,
            wall_s=round(time.time() - self.t0, 2),
            violations=len(unknown))
        os.makedirs(EVIDENCE, exist_ok=True)
        with open(os.path.join(EVIDENCE, "%s.json" % self.prop), "w") as f:
            json.dump(ev, f, indent=1)
        return code


def seed_from_env():
    try:
        return int(os.environ.get("VERIF_SEED", "1"))
    except ValueError:
        return 1

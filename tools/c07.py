"""C07 — a torn final write is tolerated like a clean crash."""
import c02
from hclib import *


def main(tier, seed):
    return c02.main(tier, seed, prop="C07", torn=True, nrand=4 if tier == "quick" else 200)


replay = c02.replay

if __name__ == "__main__":
    sys.exit(main(sys.argv[1], seed_from_env()))

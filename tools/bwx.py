"""bwx — the word-level bitfield model (coq/FixedWords.v: a literal model of src/bitfield/fixed.rs and src/bitfield/dynamic.rs, proved
to refine the abstract bitfield of Bitfield.v) against the crate's own FixedBitfield / DynamicBitfield, which are crate-private and
reached through the `verif-hooks` feature of /repo (src/bitfield/verif_probe.rs, command `bwx` of the harness and of the model
driver), on random operation scripts; and an independent set-of-indices oracle (this file) that judges the implementation's answers
for the operations whose meaning the property fixes: get, the `changed` result of set / set_range, the pages written by flush, the
bits loaded by open, the search for a set bit.

Script operations (`name:arg:..`): fnew | ffrom:DATA_INDEX:HEX | fbytes | fget:I | fset:I:V | frange:START:LEN:V | findex:V:POS |
flast:V:POS (one FixedBitfield page) and dopen:STORE_LEN:HEX | dflush | dget:I | drange:START:LEN:V | dindex:V:POS | dlast:V:POS (one
DynamicBitfield). A panic of the probed code ends a script (observation `panic`)."""
import re
PAGE = 32768
PBYTES = 4096
BORDERS = [0, 1, 2, 30, 31, 32, 33, 62, 63, 64, 65, 95, 96, 127, 128, 1023, 1024, 32704, 32735, 32736, 32737, 32766, 32767]


def hexb(b):
    return b.hex() if b else "_"


def words_text(length, words):
    return ("len=%d %s" % (length, ",".join("%d=%d" % (i, v) for i, v in sorted(words.items()) if v))).strip()


def page_words(bits, page):
    w = {}
    for i in bits:
        if i // PAGE == page:
            j = i % PAGE
            w[j // 32] = w.get(j // 32, 0) | (1 << (j % 32))
    return w


def load_page(data, data_index):
    """bits (page-relative) of FixedBitfield::from_data: complete 32-bit little-endian words of data[data_index .. data_index + 4096)"""
    out = set()
    k = 0
    while k < 1024 and data_index + 4 * k + 4 <= len(data):
        v = int.from_bytes(data[data_index + 4 * k: data_index + 4 * k + 4], "little")
        for t in range(32):
            if v >> t & 1:
                out.add(32 * k + t)
        k += 1
    return out


class Oracle:
    """what the property fixes, over plain sets; None = not judged (left to the model comparison)"""

    def __init__(self):
        self.F = set()
        self.D = set()
        self.pages = set()
        self.dirty = set()
        self.unflushed = []

    def step(self, op):
        f = op.split(":")
        n = f[0]
        a = [int(x) if (len(x) < 25 and x.isdigit()) else x for x in f[1:]]
        if n == "fnew":
            self.F = set(); return "ok"
        if n == "ffrom":
            data = b"" if f[2] in ("-", "_") else bytes.fromhex(f[2])
            self.F = load_page(data, int(f[1])); return "ok"
        if n == "fbytes":
            return "dirty=0 " + words_text(PBYTES, page_words(self.F, 0))
        if n == "fget":
            return "panic" if a[0] >= PAGE else str(int(a[0] in self.F))
        if n == "fset":
            if a[0] >= PAGE:
                return "panic"
            ch = (a[0] in self.F) != bool(a[1])
            (self.F.add if a[1] else self.F.discard)(a[0])
            return str(int(ch))
        if n == "frange":
            s, l, v = a
            if l > 0 and s + l > PAGE:
                return "panic"
            rng = range(s, s + l)
            ch = any((i in self.F) != bool(v) for i in rng)
            for i in rng:
                (self.F.add if v else self.F.discard)(i)
            return str(int(ch))
        if n == "findex" and a[0] == 1:
            c = [i for i in self.F if i >= a[1]]
            return str(min(c)) if c else "none"
        if n == "flast" and a[0] == 1 and a[1] < PAGE:
            c = [i for i in self.F if i <= a[1]]
            return str(max(c)) if c else "none"
        if n == "dopen":
            ln = a[0]
            data = b"" if f[2] in ("-", "_") else bytes.fromhex(f[2])
            req = ln - (ln & 3)
            data = data[:req]
            self.D, self.pages, self.dirty, self.unflushed = set(), set(), set(), []
            if len(data) >= 4:
                k = 0
                while k * PBYTES < len(data):
                    self.pages.add(k)
                    self.D |= set(k * PAGE + j for j in load_page(data, k * PBYTES))
                    k += 1
            return "size,read:0:%d" % req
        if n == "dget":
            return str(int(a[0] in self.D))
        if n == "drange":
            s, l, v = a
            p = s // PAGE
            while l > 0 and p * PAGE < s + l:
                lo, hi = max(s, p * PAGE), min(s + l, (p + 1) * PAGE)
                self.pages.add(p)
                ch = any((i in self.D) != bool(v) for i in range(lo, hi))
                for i in range(lo, hi):
                    (self.D.add if v else self.D.discard)(i)
                if ch and p not in self.dirty:
                    self.dirty.add(p); self.unflushed.append(p)
                p += 1
            return "ok"
        if n == "dflush":
            parts = ["%d:%s" % (p * PBYTES, words_text(PBYTES, page_words(self.D, p))) for p in self.unflushed]
            self.unflushed, self.dirty = [], set()
            return ("n=%d %s" % (len(parts), ";".join(parts))).strip()
        if n == "dindex" and a[0] == 1:
            c = [i for i in self.D if i >= a[1]]
            return str(min(c)) if c else "none"
        if n == "dlast" and a[0] == 1:
            c = [i for i in self.D if i <= a[1]]
            return str(max(c)) if c else "none"
        return None


def sparse_bytes(r, n):
    b = bytearray(n)
    for _ in range(r.choice([0, 1, 2, 5, 12])):
        if n:
            b[r.randrange(n)] = r.choice([1, 2, 0x80, 0xff, r.randrange(256)])
    if n and r.random() < 0.5:
        b[n - 1] = r.choice([0x80, 0xff, 1])         # the last byte, so that a dropped tail is visible
    if n >= 4 and r.random() < 0.3:
        b[(n // 4) * 4 - 1] = 0x80                   # top bit of the last complete word
    return bytes(b)


def in_page(r):
    return r.choice([r.choice(BORDERS), r.choice(BORDERS), r.randrange(PAGE), 32 * r.randrange(1024) + r.choice([0, 31])])


def any_index(r):
    p = r.choice([0, 0, 1, 1, 2, 3, r.randrange(6)])
    return p * PAGE + in_page(r)


def gen_script(r, hostile=False):
    ops = []
    kind = r.choice(["fixed", "fixed", "dynamic", "dynamic", "mixed"])
    for _ in range(r.randrange(3, 16)):
        c = r.random()
        if kind == "fixed" or (kind == "mixed" and r.random() < 0.5):
            if c < 0.30:
                s = in_page(r)
                l = r.choice([0, 1, 2, 31, 32, 33, 64, 65, 96, 100, r.randrange(PAGE), PAGE - s, max(0, PAGE - s - 1)])
                if not hostile:
                    l = min(l, PAGE - s)
                elif r.random() < 0.3:
                    l = PAGE - s + r.choice([1, 32, 40000])
                ops.append("frange:%d:%d:%d" % (s, l, r.randrange(2)))
            elif c < 0.42:
                ops.append("fset:%d:%d" % (in_page(r) if not hostile or r.random() < 0.8 else PAGE + r.randrange(40), r.randrange(2)))
            elif c < 0.58:
                ops.append("fget:%d" % (in_page(r) if not hostile or r.random() < 0.8 else PAGE + r.randrange(40)))
            elif c < 0.64:
                ops.append("findex:%d:%d" % (r.randrange(2), r.choice([in_page(r), PAGE - 1, PAGE, PAGE + 5])))
            elif c < 0.70:
                ops.append("flast:%d:%d" % (r.randrange(2), r.choice(BORDERS[:17] + [r.randrange(4000)])))
            elif c < 0.90:
                ops.append("fbytes")
            elif c < 0.97:
                n = r.choice([0, 3, 4, 5, 7, 8, 4092, 4095, 4096, 4097, 4100, 8188, 8192])
                di = r.choice([0, 0, 0, 4096]) if not hostile else r.choice([0, 4, 4096, 5000])
                ops.append("ffrom:%d:%s" % (di, hexb(sparse_bytes(r, n))))
            else:
                ops.append("fnew")
        else:
            if c < 0.32:
                s = any_index(r)
                l = r.choice([0, 1, 32, 33, 100, PAGE - s % PAGE, PAGE - s % PAGE + 1, PAGE, PAGE + 1, 2 * PAGE, r.randrange(3 * PAGE), 70000])
                ops.append("drange:%d:%d:%d" % (s, l, r.randrange(2)))
            elif c < 0.50:
                ops.append("dget:%d" % any_index(r))
            elif c < 0.60:
                ops.append("dindex:%d:%d" % (r.randrange(2), any_index(r)))
            elif c < 0.66:
                ops.append("dlast:%d:%d" % (r.randrange(2) if hostile else 1, r.choice([in_page(r) % 3000, PAGE + r.randrange(64), any_index(r) % 40000])))
            elif c < 0.90:
                ops.append("dflush")
            else:
                n = r.choice([0, 3, 4, 5, 8, 4095, 4096, 4097, 4100, 8191, 8192, 8196, 12288])
                ops.append("dopen:%d:%s" % (n, hexb(sparse_bytes(r, n))))
    return ops


def norm(x):
    """an empty word list leaves a blank before the next separator"""
    return re.sub(r"\s+(;|$)", r"\1", x.strip())


def no_write_len(x):
    """the model's flush observation carries offsets and words, not the byte length of each write (the oracle checks that)"""
    return norm(re.sub(r"(\d+):len=\d+ ?", r"\1:", x)) if x.startswith("n=") else x


def split_answer(a):
    if not a.startswith("ok"):
        return None
    return [norm(x) for x in a[2:].split("|")]


def crosscheck(base, model, res, r, tier, klass):
    """returns violations (implementation vs the set oracle); disagreements with the model go to res.disagreements"""
    found = []
    n = 70 if tier == "quick" else 3000
    kinds = {}
    for k in range(n):
        hostile = (k % 5 == 4)
        ops = gen_script(r, hostile)
        cmd = "bwx " + " ".join(ops)
        ia = base.cmd(cmd)
        ma = model.cmd(cmd)
        res.count("bitfield-word-scripts")
        iv, mv = split_answer(ia), split_answer(ma)
        if iv is None or klass(ia) == "crash":
            found.append(dict(key="bwx:crash", what="bitfield probe script -> %s" % ia[:200], replay=dict(script=ops)))
            break
        o = Oracle()
        for j, op in enumerate(ops):
            if j >= len(iv):
                break
            kinds[op.split(":")[0]] = kinds.get(op.split(":")[0], 0) + 1
            exp = o.step(op)
            if exp is not None and norm(exp) != iv[j]:
                found.append(dict(key="bwx:" + op.split(":")[0],
                                  what="bitfield script step %d `%s`: the crate's %s answered `%s`, the set-of-indices specification says `%s`"
                                       % (j, op[:80], "FixedBitfield" if op[0] == "f" else "DynamicBitfield", iv[j][:160], exp[:160]),
                                  replay=dict(script=ops[:j + 1])))
                break
            if iv[j] == "panic":
                break
        ivm = [no_write_len(x) for x in iv]
        if mv is None or mv != ivm:
            first = next((j for j in range(min(len(iv), len(mv or []))) if ivm[j] != mv[j]), min(len(iv), len(mv or [])))
            res.disagreements.append(dict(cmd=(cmd[:300]), step=first, op=(ops[first][:80] if first < len(ops) else None),
                                          impl=(iv[first][:200] if first < len(iv) else "<end>"),
                                          model=((mv[first][:200] if mv and first < len(mv) else ma[:200])),
                                          level="FixedBitfield/DynamicBitfield vs FixedWords.v"))
        if len(found) >= 2 or len(res.disagreements) >= 3:
            break
    res.extra["bitfield_word_ops"] = kinds
    return found
